// Package codec is a byte-level IPv4/IPv6/ICMP/UDP/TCP encoder and decoder written for the
// verification harness. It deliberately shares no code with gopacket (which the code under
// test uses both to build and to parse packets), so that an encoding mistake cannot cancel
// against the matching decoding mistake.
package codec

import (
	"encoding/binary"
	"errors"
	"fmt"
	"net/netip"
)

const (
	ProtoICMP   = 1
	ProtoTCP    = 6
	ProtoUDP    = 17
	ProtoICMPv6 = 58
	ProtoFrag6  = 44
)

const (
	FlagFIN = 0x01
	FlagSYN = 0x02
	FlagRST = 0x04
	FlagPSH = 0x08
	FlagACK = 0x10
	FlagURG = 0x20
)

// IP is a decoded IP header (v4 or v6) with its payload.
type IP struct {
	Version  int
	HdrLen   int // bytes
	TOS      uint8
	TotalLen int // v4: total length field; v6: 40 + payload length field
	ID       uint16
	Flags    uint8  // v4 3 bits
	FragOff  uint16 // v4 13 bits
	TTL      uint8
	Proto    uint8
	Src, Dst netip.Addr
	Options  []byte
	Payload  []byte // bytes after the header, bounded by the length field (or by the buffer if lenient)
	CsumOK   bool   // v4 header checksum verifies (always true for v6)
	LenOK    bool   // length field == len(buffer)
}

// Checksum is the Internet checksum of b (with an initial partial sum).
func Checksum(b []byte, initial uint32) uint16 {
	sum := initial
	for i := 0; i+1 < len(b); i += 2 {
		sum += uint32(b[i])<<8 | uint32(b[i+1])
	}
	if len(b)%2 == 1 {
		sum += uint32(b[len(b)-1]) << 8
	}
	for sum>>16 != 0 {
		sum = (sum & 0xffff) + (sum >> 16)
	}
	return ^uint16(sum)
}

func pseudoSum(src, dst netip.Addr, proto uint8, length int) uint32 {
	var sum uint32
	add := func(b []byte) {
		for i := 0; i+1 < len(b); i += 2 {
			sum += uint32(b[i])<<8 | uint32(b[i+1])
		}
	}
	s, d := src.AsSlice(), dst.AsSlice()
	add(s)
	add(d)
	if src.Is4() {
		sum += uint32(proto)
		sum += uint32(length)
	} else {
		sum += uint32(length >> 16)
		sum += uint32(length & 0xffff)
		sum += uint32(proto)
	}
	return sum
}

// DecodeIP decodes an IP packet. With lenient=false every length inconsistency is an error;
// with lenient=true (used for quoted, truncated packets) the payload is whatever is present.
func DecodeIP(b []byte, lenient bool) (*IP, error) {
	if len(b) < 1 {
		return nil, errors.New("empty")
	}
	switch b[0] >> 4 {
	case 4:
		if len(b) < 20 {
			return nil, errors.New("short ipv4 header")
		}
		ihl := int(b[0]&0xf) * 4
		if ihl < 20 || len(b) < ihl {
			return nil, fmt.Errorf("bad ihl %d", ihl)
		}
		ip := &IP{Version: 4, HdrLen: ihl, TOS: b[1], TotalLen: int(binary.BigEndian.Uint16(b[2:4])),
			ID: binary.BigEndian.Uint16(b[4:6]), Flags: b[6] >> 5, FragOff: binary.BigEndian.Uint16(b[6:8]) & 0x1fff,
			TTL: b[8], Proto: b[9]}
		ip.Src = netip.AddrFrom4([4]byte(b[12:16]))
		ip.Dst = netip.AddrFrom4([4]byte(b[16:20]))
		ip.Options = b[20:ihl]
		ip.CsumOK = Checksum(b[:ihl], 0) == 0
		ip.LenOK = ip.TotalLen == len(b)
		end := len(b)
		if !lenient {
			if ip.TotalLen != len(b) {
				return ip, fmt.Errorf("ipv4 total length %d != buffer %d", ip.TotalLen, len(b))
			}
		} else if ip.TotalLen >= ihl && ip.TotalLen < end {
			end = ip.TotalLen
		}
		ip.Payload = b[ihl:end]
		return ip, nil
	case 6:
		if len(b) < 40 {
			return nil, errors.New("short ipv6 header")
		}
		pl := int(binary.BigEndian.Uint16(b[4:6]))
		ip := &IP{Version: 6, HdrLen: 40, TOS: (b[0]&0xf)<<4 | b[1]>>4, TotalLen: 40 + pl, TTL: b[7], Proto: b[6], CsumOK: true}
		ip.Src = netip.AddrFrom16([16]byte(b[8:24]))
		ip.Dst = netip.AddrFrom16([16]byte(b[24:40]))
		ip.LenOK = ip.TotalLen == len(b)
		end := len(b)
		if !lenient {
			if ip.TotalLen != len(b) {
				return ip, fmt.Errorf("ipv6 payload length %d != buffer %d", pl, len(b)-40)
			}
		} else if ip.TotalLen < end {
			end = ip.TotalLen
		}
		ip.Payload = b[40:end]
		return ip, nil
	default:
		return nil, fmt.Errorf("ip version %d", b[0]>>4)
	}
}

// V4Opts are the optional knobs of BuildIPv4.
type V4Opts struct {
	TOS     uint8
	ID      uint16
	Flags   uint8 // 3 bits (DF=2, MF=1)
	FragOff uint16
	Options []byte // padded to a multiple of 4 by the caller
}

// BuildIPv4 builds an IPv4 packet with a correct header checksum and total length.
func BuildIPv4(src, dst netip.Addr, proto, ttl uint8, o V4Opts, payload []byte) []byte {
	ihl := 20 + len(o.Options)
	b := make([]byte, ihl+len(payload))
	b[0] = 0x40 | byte(ihl/4)
	b[1] = o.TOS
	binary.BigEndian.PutUint16(b[2:4], uint16(len(b)))
	binary.BigEndian.PutUint16(b[4:6], o.ID)
	binary.BigEndian.PutUint16(b[6:8], uint16(o.Flags)<<13|o.FragOff&0x1fff)
	b[8] = ttl
	b[9] = proto
	s, d := src.As4(), dst.As4()
	copy(b[12:16], s[:])
	copy(b[16:20], d[:])
	copy(b[20:ihl], o.Options)
	binary.BigEndian.PutUint16(b[10:12], Checksum(b[:ihl], 0))
	copy(b[ihl:], payload)
	return b
}

// BuildIPv6 builds an IPv6 packet.
func BuildIPv6(src, dst netip.Addr, nextHeader, hopLimit uint8, payload []byte) []byte {
	b := make([]byte, 40+len(payload))
	b[0] = 0x60
	binary.BigEndian.PutUint16(b[4:6], uint16(len(payload)))
	b[6] = nextHeader
	b[7] = hopLimit
	s, d := src.As16(), dst.As16()
	copy(b[8:24], s[:])
	copy(b[24:40], d[:])
	copy(b[40:], payload)
	return b
}

// BuildIP dispatches on the address family of dst.
func BuildIP(src, dst netip.Addr, proto, ttl uint8, o V4Opts, payload []byte) []byte {
	if dst.Is4() {
		return BuildIPv4(src, dst, proto, ttl, o, payload)
	}
	return BuildIPv6(src, dst, proto, ttl, payload)
}

// ICMP builds an ICMPv4 or ICMPv6 message (family taken from dst) with a correct checksum.
// rest is the 4 bytes after the checksum.
func ICMP(src, dst netip.Addr, typ, code uint8, rest [4]byte, body []byte) []byte {
	m := make([]byte, 8+len(body))
	m[0], m[1] = typ, code
	copy(m[4:8], rest[:])
	copy(m[8:], body)
	var c uint16
	if dst.Is4() {
		c = Checksum(m, 0)
	} else {
		c = Checksum(m, pseudoSum(src, dst, ProtoICMPv6, len(m)))
	}
	binary.BigEndian.PutUint16(m[2:4], c)
	return m
}

// TCPSeg describes a TCP segment to build.
type TCPSeg struct {
	SrcPort, DstPort uint16
	Seq, Ack         uint32
	Flags            uint8
	Window           uint16
	Options          []byte // padded to a multiple of 4 by BuildTCP with NOPs
	Payload          []byte
}

// BuildTCP builds a TCP segment with correct checksum.
func BuildTCP(src, dst netip.Addr, s TCPSeg) []byte {
	opts := append([]byte(nil), s.Options...)
	for len(opts)%4 != 0 {
		opts = append(opts, 1)
	}
	hl := 20 + len(opts)
	b := make([]byte, hl+len(s.Payload))
	binary.BigEndian.PutUint16(b[0:2], s.SrcPort)
	binary.BigEndian.PutUint16(b[2:4], s.DstPort)
	binary.BigEndian.PutUint32(b[4:8], s.Seq)
	binary.BigEndian.PutUint32(b[8:12], s.Ack)
	b[12] = byte(hl/4) << 4
	b[13] = s.Flags
	binary.BigEndian.PutUint16(b[14:16], s.Window)
	copy(b[20:hl], opts)
	copy(b[hl:], s.Payload)
	binary.BigEndian.PutUint16(b[16:18], Checksum(b, pseudoSum(src, dst, ProtoTCP, len(b))))
	return b
}

// BuildUDP builds a UDP datagram with correct checksum.
func BuildUDP(src, dst netip.Addr, sport, dport uint16, payload []byte) []byte {
	b := make([]byte, 8+len(payload))
	binary.BigEndian.PutUint16(b[0:2], sport)
	binary.BigEndian.PutUint16(b[2:4], dport)
	binary.BigEndian.PutUint16(b[4:6], uint16(len(b)))
	copy(b[8:], payload)
	c := Checksum(b, pseudoSum(src, dst, ProtoUDP, len(b)))
	if c == 0 {
		c = 0xffff
	}
	binary.BigEndian.PutUint16(b[6:8], c)
	return b
}

// L4 is a decoded transport header.
type L4 struct {
	Proto              uint8
	ICMPType, ICMPCode uint8
	ICMPRest           [4]byte
	ICMPID, ICMPSeq    uint16 // echo / echo reply
	SrcPort, DstPort   uint16
	Seq, Ack           uint32
	Flags              uint8
	DataOff            int
	Window             uint16
	TCPOptions         []byte
	UDPLen             uint16
	Body               []byte // ICMP body after the 8-byte header, TCP/UDP payload
	CsumOK             bool
	Complete           bool // the full transport header was present
}

// DecodeL4 decodes the transport header found in ip.Payload. It never fails on short input:
// Complete reports whether the whole header was present. Checksums are verified only when the
// packet is not truncated.
func DecodeL4(ip *IP) *L4 {
	p := ip.Payload
	l := &L4{Proto: ip.Proto}
	switch ip.Proto {
	case ProtoICMP, ProtoICMPv6:
		if len(p) < 8 {
			return l
		}
		l.Complete = true
		l.ICMPType, l.ICMPCode = p[0], p[1]
		copy(l.ICMPRest[:], p[4:8])
		l.ICMPID = binary.BigEndian.Uint16(p[4:6])
		l.ICMPSeq = binary.BigEndian.Uint16(p[6:8])
		l.Body = p[8:]
		if ip.Proto == ProtoICMP {
			l.CsumOK = Checksum(p, 0) == 0
		} else {
			l.CsumOK = Checksum(p, pseudoSum(ip.Src, ip.Dst, ProtoICMPv6, len(p))) == 0
		}
	case ProtoTCP:
		if len(p) >= 8 {
			l.SrcPort = binary.BigEndian.Uint16(p[0:2])
			l.DstPort = binary.BigEndian.Uint16(p[2:4])
			l.Seq = binary.BigEndian.Uint32(p[4:8])
		}
		if len(p) < 20 {
			return l
		}
		l.Ack = binary.BigEndian.Uint32(p[8:12])
		l.DataOff = int(p[12]>>4) * 4
		l.Flags = p[13]
		l.Window = binary.BigEndian.Uint16(p[14:16])
		if l.DataOff < 20 || l.DataOff > len(p) {
			return l
		}
		l.Complete = true
		l.TCPOptions = p[20:l.DataOff]
		l.Body = p[l.DataOff:]
		l.CsumOK = Checksum(p, pseudoSum(ip.Src, ip.Dst, ProtoTCP, len(p))) == 0
	case ProtoUDP:
		if len(p) < 8 {
			return l
		}
		l.Complete = true
		l.SrcPort = binary.BigEndian.Uint16(p[0:2])
		l.DstPort = binary.BigEndian.Uint16(p[2:4])
		l.UDPLen = binary.BigEndian.Uint16(p[4:6])
		l.Body = p[8:]
		l.CsumOK = int(l.UDPLen) == len(p) && Checksum(p, pseudoSum(ip.Src, ip.Dst, ProtoUDP, len(p))) == 0
	}
	return l
}

// TCPOpt is one parsed TCP option.
type TCPOpt struct {
	Kind uint8
	Data []byte
}

// ParseTCPOptions walks a TCP option block; malformed tails are dropped.
func ParseTCPOptions(b []byte) []TCPOpt {
	var out []TCPOpt
	for len(b) > 0 {
		k := b[0]
		if k == 0 {
			break
		}
		if k == 1 {
			b = b[1:]
			continue
		}
		if len(b) < 2 || int(b[1]) < 2 || int(b[1]) > len(b) {
			break
		}
		out = append(out, TCPOpt{Kind: k, Data: b[2:b[1]]})
		b = b[b[1]:]
	}
	return out
}

// SackOption encodes a SACK option (kind 5) from absolute edges.
func SackOption(blocks [][2]uint32) []byte {
	o := []byte{5, byte(2 + 8*len(blocks))}
	for _, bl := range blocks {
		o = binary.BigEndian.AppendUint32(o, bl[0])
		o = binary.BigEndian.AppendUint32(o, bl[1])
	}
	return o
}

// TimestampOption encodes a TCP timestamps option (kind 8).
func TimestampOption(val, ecr uint32) []byte {
	o := []byte{8, 10}
	o = binary.BigEndian.AppendUint32(o, val)
	o = binary.BigEndian.AppendUint32(o, ecr)
	return o
}

// EthernetFrame prepends a 14-byte Ethernet header with the ethertype matching the IP version
// (or the given override when non-zero).
func EthernetFrame(ipPacket []byte, etherType uint16) []byte {
	f := make([]byte, 14+len(ipPacket))
	copy(f[0:6], []byte{2, 0, 0, 0, 0, 1})
	copy(f[6:12], []byte{2, 0, 0, 0, 0, 2})
	if etherType == 0 {
		etherType = 0x0800
		if len(ipPacket) > 0 && ipPacket[0]>>4 == 6 {
			etherType = 0x86dd
		}
	}
	binary.BigEndian.PutUint16(f[12:14], etherType)
	copy(f[14:], ipPacket)
	return f
}

// QuoteKind selects how much of the offending packet an ICMP error quotes.
type QuoteKind int

const (
	Quote28   QuoteKind = iota // IP header + 8 bytes (RFC 792 minimum)
	QuoteFull                  // the whole original datagram
	Quote4884                  // RFC 4884: original datagram padded to 128 bytes + length field + extension object
)

// ICMPErrOpts tunes an ICMP error reply.
type ICMPErrOpts struct {
	Quote        QuoteKind
	OuterOptions []byte // IPv4 options on the outer header
	OuterTOS     uint8
	OuterTTL     uint8
	// mutate lets the caller rewrite the quoted packet (a private copy) before it is embedded,
	// e.g. TTL=1/0, checksum and TOS rewritten by routers, NAT-rewritten source.
	Mutate func(q []byte) []byte
}

// ICMPError builds an ICMP error (typ, code in the family of orig) sent by `from` to the source of
// the original packet orig (full IP bytes), quoting it.
func ICMPError(from netip.Addr, typ, code uint8, orig []byte, o ICMPErrOpts) ([]byte, error) {
	ip, err := DecodeIP(orig, true)
	if err != nil {
		return nil, err
	}
	q := append([]byte(nil), orig...)
	if o.Mutate != nil {
		q = o.Mutate(q)
	}
	var rest [4]byte
	var body []byte
	switch o.Quote {
	case Quote28:
		n := ip.HdrLen + 8
		if n > len(q) {
			n = len(q)
		}
		body = q[:n]
	case QuoteFull:
		body = q
	case Quote4884:
		padded := q
		if len(padded) > 128 {
			padded = padded[:128]
		}
		for len(padded) < 128 {
			padded = append(padded, 0)
		}
		if ip.Version == 4 {
			rest[1] = byte(len(padded) / 4)
		} else {
			rest[0] = byte(len(padded) / 8)
		}
		// extension header (version 2) + one MPLS label stack object
		ext := []byte{0x20, 0, 0, 0, 0, 8, 1, 1, 0x00, 0x01, 0x01, 0x01}
		binary.BigEndian.PutUint16(ext[2:4], Checksum(ext, 0))
		body = append(append([]byte(nil), padded...), ext...)
	}
	ttl := o.OuterTTL
	if ttl == 0 {
		ttl = 64
	}
	if ip.Version == 4 {
		if !from.Is4() {
			return nil, fmt.Errorf("responder %s is not IPv4", from)
		}
		m := ICMP(from, ip.Src, typ, code, rest, body)
		return BuildIPv4(from, ip.Src, ProtoICMP, ttl, V4Opts{TOS: o.OuterTOS, ID: 0x1111, Options: o.OuterOptions}, m), nil
	}
	if !from.Is6() {
		return nil, fmt.Errorf("responder %s is not IPv6", from)
	}
	m := ICMP(from, ip.Src, typ, code, rest, body)
	return BuildIPv6(from, ip.Src, ProtoICMPv6, ttl, m), nil
}

// ICMP types used by traceroute.
const (
	V4EchoReply    = 0
	V4Unreachable  = 3
	V4Echo         = 8
	V4TimeExceeded = 11
	V6Unreachable  = 1
	V6TimeExceeded = 3
	V6Echo         = 128
	V6EchoReply    = 129
)

// TimeExceededType returns the ICMP time-exceeded type for the family of a.
func TimeExceededType(a netip.Addr) uint8 {
	if a.Is4() {
		return V4TimeExceeded
	}
	return V6TimeExceeded
}

// UnreachableType returns the destination-unreachable type for the family of a.
func UnreachableType(a netip.Addr) uint8 {
	if a.Is4() {
		return V4Unreachable
	}
	return V6Unreachable
}

// EchoReply builds the echo reply a target would send for the echo request orig.
func EchoReply(from netip.Addr, orig []byte) ([]byte, error) {
	ip, err := DecodeIP(orig, true)
	if err != nil {
		return nil, err
	}
	l := DecodeL4(ip)
	if !l.Complete {
		return nil, errors.New("orig is not a complete icmp echo")
	}
	if ip.Version == 4 {
		m := ICMP(from, ip.Src, V4EchoReply, 0, l.ICMPRest, l.Body)
		return BuildIPv4(from, ip.Src, ProtoICMP, 64, V4Opts{ID: 0x2222}, m), nil
	}
	m := ICMP(from, ip.Src, V6EchoReply, 0, l.ICMPRest, l.Body)
	return BuildIPv6(from, ip.Src, ProtoICMPv6, 64, m), nil
}

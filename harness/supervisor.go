package harness

import (
	"bufio"
	"bytes"
	"encoding/json"
	"fmt"
	"os"
	"os/exec"
	"path/filepath"
	"regexp"
	"sort"
	"strconv"
	"strings"
	"sync"
	"time"

	"verifharness/props"
	"verifharness/sim"
)

const netSetup = `ip link set lo up; ip addr add 192.0.2.2/24 dev lo; ip -6 addr add fd00::2/64 dev lo nodad; ip route add default dev lo src 192.0.2.2; ip -6 route add default dev lo src fd00::2; ip rule add to 198.18.0.9 ipproto tcp unreachable`

type supConfig struct {
	Prop      string
	Tier      string
	Seed      uint64
	Root      string
	Workers   int
	BudgetS   int
	Replay    string
	Runs      int
	WorkDir   string
	ReplayDir string
}

func envInt(k string, def int) int {
	if v, err := strconv.Atoi(os.Getenv(k)); err == nil {
		return v
	}
	return def
}

type childOutcome struct {
	res      *ChunkResult
	exit     int
	lastIdx  int
	stderr   string
	crashed  bool
	watchdog bool
	lockhang string // waiters reported by the worker's watchdog (see worker.go)
}

func runChild(cfg *supConfig, spec WorkerSpec, gomaxprocs int) childOutcome {
	b, _ := json.Marshal(spec)
	// every worker process lives in its own network namespace: kernel port numbers (SACK
	// listeners, "closed" ports, ephemeral sources) of concurrent workers can never meet
	args := []string{"-test.run", "^TestWorker$", "-test.timeout", "0", "-test.count", "1"}
	cmd := exec.Command(os.Args[0], args...)
	if os.Getenv("VERIF_NETNS") != "0" {
		script := netSetup + `; exec "$0" "$@"`
		cmd = exec.Command("unshare", append([]string{"-n", "sh", "-c", script, os.Args[0]}, args...)...)
	}
	cmd.Env = append(os.Environ(), "VERIF_ROLE=worker", "VERIF_SPEC="+string(b), "GOMAXPROCS="+strconv.Itoa(gomaxprocs))
	if spec.Prop == "C14" {
		racelog := spec.Out + ".race"
		cmd.Env = append(cmd.Env, "VERIF_RACELOG="+racelog, "GORACE=log_path="+racelog+" halt_on_error=0 history_size=3")
		defer func() {
			matches, _ := filepath.Glob(racelog + ".*")
			for _, m := range matches {
				os.Remove(m)
			}
		}()
	}
	var tail bytes.Buffer
	var last []string
	lastBytes := 0
	pr, pw, _ := os.Pipe()
	cmd.Stderr = pw
	cmd.Stdout = pw
	co := childOutcome{lastIdx: -1}
	if err := cmd.Start(); err != nil {
		co.exit = 2
		co.stderr = err.Error()
		return co
	}
	pw.Close()
	sc := bufio.NewScanner(pr)
	sc.Buffer(make([]byte, 1<<20), 1<<20)
	for sc.Scan() {
		line := sc.Text()
		if len(line) > 1 && line[0] == '@' {
			if v, err := strconv.Atoi(line[1:]); err == nil {
				co.lastIdx = v
				continue
			}
		}
		// keep the head and the tail of the output (a crash header may come after a lot of noise, a
		// goroutine dump after it may be long)
		if tail.Len() < 1<<15 {
			tail.WriteString(line)
			tail.WriteByte('\n')
		} else {
			last = append(last, line)
			lastBytes += len(line) + 1
			for lastBytes > 1<<17 && len(last) > 1 {
				lastBytes -= len(last[0]) + 1
				last = last[1:]
			}
		}
	}
	err := cmd.Wait()
	pr.Close()
	if len(last) > 0 {
		tail.WriteString("[...]\n" + strings.Join(last, "\n") + "\n")
	}
	co.stderr = tail.String()
	if err != nil && cfg != nil && cfg.WorkDir != "" {
		// the complete captured output of a failed worker, for diagnosis
		os.WriteFile(filepath.Join(filepath.Dir(cfg.WorkDir), fmt.Sprintf("failed-worker-%s-%d.log", spec.Prop, spec.From)), []byte(co.stderr), 0o644)
	}
	if err != nil {
		co.exit = 1
		if ee, ok := err.(*exec.ExitError); ok {
			co.exit = ee.ExitCode()
		}
	}
	if strings.Contains(co.stderr, "WATCHDOG") {
		co.watchdog = true
	}
	if i := strings.Index(co.stderr, "LOCKHANG "); i >= 0 {
		co.lockhang, _, _ = strings.Cut(co.stderr[i+len("LOCKHANG "):], "\n")
	}
	if co.exit == 1 && spec.Prop == "C14" && strings.Contains(co.stderr, "race detected during execution of test") {
		co.exit = 0 // the testing package fails a test during which the detector fired; the reports are in the result
	}
	if co.exit == 0 {
		if rb, err := os.ReadFile(spec.Out); err == nil {
			var r ChunkResult
			if json.Unmarshal(rb, &r) == nil {
				co.res = &r
			}
		}
		if co.res == nil {
			co.exit = 2
		}
	} else if !co.watchdog {
		co.crashed = strings.Contains(co.stderr, "panic:") || strings.Contains(co.stderr, "fatal error:") || co.exit < 0 || strings.Contains(co.stderr, "signal") || strings.Contains(co.stderr, "SIG")
	}
	os.Remove(spec.Out)
	return co
}

type aggregate struct {
	mu           sync.Mutex
	Runs         int
	VirtualS     float64
	RealNs       int64
	Stats        map[string]int
	Probes       map[string]int
	Inconclusive map[string]int
	Shapes       map[uint64]bool
	Scheds       map[uint64]bool
	NonTrivial   int
	Choices      int
	Samples      []json.RawMessage
	Violations   []FoundViolation
	DetRuns      int
	DetMismatch  []int
	Trouble      []string
	Notes        []string
}

func (a *aggregate) merge(r *ChunkResult) {
	a.mu.Lock()
	defer a.mu.Unlock()
	a.Runs += r.Runs
	a.VirtualS += r.VirtualS
	a.RealNs += r.RealNs
	for k, v := range r.Stats {
		a.Stats[k] += v
	}
	for k, v := range r.Probes {
		a.Probes[k] += v
	}
	for k, v := range r.Inconclusive {
		a.Inconclusive[k] += v
	}
	for _, s := range r.Shapes {
		a.Shapes[s] = true
	}
	for _, s := range r.Scheds {
		a.Scheds[s] = true
	}
	a.NonTrivial += r.NonTrivial
	a.Choices += r.Choices
	if len(a.Samples) < 3 {
		a.Samples = append(a.Samples, r.Samples...)
	}
	a.Violations = append(a.Violations, r.Violations...)
	a.DetRuns += r.DetRuns
	a.DetMismatch = append(a.DetMismatch, r.DetMismatch...)
	a.Trouble = append(a.Trouble, r.HarnessErrors...)
	a.Notes = append(a.Notes, r.Notes...)
}

func crashFacts(sc *sim.Scenario, stderr string) (map[string]string, string) {
	f := map[string]string{}
	if len(sc.Calls) > 0 {
		c := sc.Calls[0]
		f["entry"] = c.Entry
		if c.Protocol != "" {
			f["protocol"] = c.Protocol
		}
		if c.Method != "" {
			f["method"] = c.Method
		}
		f["minTTL"] = strconv.Itoa(c.MinTTL)
		f["maxTTL"] = strconv.Itoa(c.MaxTTL)
	}
	msg := ""
	lines := strings.Split(stderr, "\n")
	for i, l := range lines {
		if msg == "" && (strings.HasPrefix(l, "panic:") || strings.HasPrefix(l, "fatal error:")) {
			msg = l
		}
		if strings.HasPrefix(l, "github.com/DataDog/datadog-traceroute/") && f["site"] == "" && !strings.Contains(l, "verif") {
			fn := l
			if j := strings.IndexByte(fn, '('); j > 0 {
				fn = fn[:j]
			}
			f["site"] = strings.TrimPrefix(fn, "github.com/DataDog/datadog-traceroute/")
			_ = i
		}
	}
	return f, msg
}

// triageCrash confirms a worker death on scenario index idx in a sacrificial child, minimises it
// with further children and returns the violation.
// toolchainTimerCrash recognises a crash of the Go 1.26.8 runtime itself, not of the code under
// test: with the race detector on, every timer of a synctest bubble fires under the bubble's single
// race context (runtime/time.go unlockAndRun: gp.racectx = bubble.timers.raceCtx); when two threads
// fire channel timers of one bubble at the same moment (select on a time.Timer channel, GOMAXPROCS >
// 1) they share that context and the race runtime dies with SIGSEGV. The signature is a SIGSEGV whose
// g0 is labelled with a synctest bubble (g0 carries a bubble only while it fires one of the bubble's
// timers). It cannot happen on one P.
func toolchainTimerCrash(stderr string) bool {
	i := strings.Index(stderr, "SIGSEGV: segmentation violation")
	if i < 0 {
		return false
	}
	head := stderr[i:]
	if len(head) > 6000 {
		head = head[:6000]
	}
	// g0 carries a bubble only while it fires one of the bubble's timers on the system stack
	return toolchainG0InBubble.MatchString(head)
}

var toolchainG0InBubble = regexp.MustCompile(`(?m)^goroutine 0 gp=\S+ m=\d+ mp=\S+ \[[^\]]*synctest bubble`)

func triageCrash(cfg *supConfig, p props.Property, idx int, firstStderr string) *FoundViolation {
	sc := GenScenario(p, cfg.Tier, cfg.Seed, idx)
	tmp := filepath.Join(cfg.WorkDir, fmt.Sprintf("crash-%d.json", idx))
	runScen := func(c *sim.Scenario) (bool, string) {
		rf := ReplayFile{Property: p.ID(), Rule: "crash", Scenario: c}
		b, _ := json.Marshal(rf)
		os.WriteFile(tmp, b, 0o644)
		co := runChild(cfg, WorkerSpec{Prop: p.ID(), Tier: cfg.Tier, Seed: cfg.Seed, ScenFile: tmp, Out: tmp + ".out", ReplayDir: cfg.ReplayDir}, 1)
		return co.crashed, co.stderr
	}
	crashed, stderr := runScen(sc)
	if !crashed {
		return nil
	}
	cur := sc
	lastErr := stderr
	budget := 40
	try := func(c *sim.Scenario) bool {
		if budget <= 0 {
			return false
		}
		budget--
		ok, se := runScen(c)
		if ok {
			cur, lastErr = c, se
		}
		return ok
	}
	// structure-aware reductions, each in its own process
	for _, f := range []func(c *sim.Scenario) bool{
		func(c *sim.Scenario) bool { ch := len(c.Noise) > 0; c.Noise = nil; return ch },
		func(c *sim.Scenario) bool { ch := len(c.Faults) > 0; c.Faults = nil; return ch },
		func(c *sim.Scenario) bool { ch := len(c.Flows) > 0; c.Flows = nil; return ch },
		func(c *sim.Scenario) bool { ch := len(c.Calls) > 1; c.Calls = c.Calls[:1]; return ch },
		func(c *sim.Scenario) bool { ch := c.Calls[0].E2E > 0; c.Calls[0].E2E = 0; return ch },
		func(c *sim.Scenario) bool { ch := c.Calls[0].Queries > 1; c.Calls[0].Queries = 1; return ch },
		func(c *sim.Scenario) bool {
			ch := c.Calls[0].ReverseDNS || c.Calls[0].PublicIP
			c.Calls[0].ReverseDNS, c.Calls[0].PublicIP = false, false
			return ch
		},
		func(c *sim.Scenario) bool { ch := c.Calls[0].MinTTL > 1; c.Calls[0].MinTTL = 1; return ch },
		func(c *sim.Scenario) bool { ch := len(c.Tape) > 0; c.Tape = nil; return ch },
	} {
		c := cur.Clone()
		if f(c) {
			try(c)
		}
	}
	os.Remove(tmp)
	facts, msg := crashFacts(cur, lastErr)
	v := props.Violation{Rule: "crash", Detail: "worker process died while executing this scenario: " + msg, Facts: facts}
	rf := ReplayFile{Property: p.ID(), Rule: "crash", Detail: v.Detail, Facts: facts, Scenario: cur, Shrunk: true}
	os.MkdirAll(cfg.ReplayDir, 0o755)
	path := fmt.Sprintf("%s/%s-%d-%d-crash.json", cfg.ReplayDir, p.ID(), cfg.Seed, idx)
	b, _ := json.MarshalIndent(rf, "", " ")
	os.WriteFile(path, b, 0o644)
	return &FoundViolation{Violation: v, Index: idx, Replay: path}
}

func supervisorMain() int {
	cfg := &supConfig{
		Prop:    os.Getenv("VERIF_PROP"),
		Tier:    os.Getenv("VERIF_TIER"),
		Root:    os.Getenv("VERIF_ROOT"),
		Workers: envInt("VERIF_WORKERS", 16),
		BudgetS: envInt("VERIF_BUDGET_S", 540),
		Replay:  os.Getenv("VERIF_REPLAY"),
	}
	if cfg.Root == "" {
		cfg.Root = "/verif"
	}
	if cfg.Tier == "" {
		cfg.Tier = "quick"
	}
	cfg.Seed = 1
	if v, err := strconv.ParseUint(os.Getenv("VERIF_SEED"), 10, 64); err == nil {
		cfg.Seed = v
	}
	cfg.WorkDir = filepath.Join(cfg.Root, ".work", fmt.Sprintf("%s-%d", cfg.Prop, os.Getpid()))
	cfg.ReplayDir = filepath.Join(cfg.Root, "replays")
	os.MkdirAll(cfg.WorkDir, 0o755)
	defer os.RemoveAll(cfg.WorkDir)
	fmt.Printf("VERIF_SEED=%d property=%s tier=%s\n", cfg.Seed, cfg.Prop, cfg.Tier)

	if cfg.Prop == "selftest-determinism" {
		return selftestDeterminism(cfg)
	}
	p := props.Get(cfg.Prop)
	if p == nil {
		fmt.Println("unknown property", cfg.Prop, "known:", props.IDs())
		return 2
	}
	findings := loadFindings(filepath.Join(cfg.Root, "KNOWN_FINDINGS.txt"))

	if cfg.Replay != "" {
		co := runChild(cfg, WorkerSpec{Prop: cfg.Prop, Tier: cfg.Tier, Seed: cfg.Seed, Replay: cfg.Replay, Out: filepath.Join(cfg.WorkDir, "replay.out"), ReplayDir: cfg.ReplayDir}, 1)
		var rf ReplayFile
		if b, err := os.ReadFile(cfg.Replay); err == nil {
			json.Unmarshal(b, &rf)
		}
		if co.crashed {
			fmt.Printf("replay: worker died again (%s)\n", firstLine(co.stderr, "panic:"))
			fmt.Printf("VIOLATION property=%s replay=%s\n", cfg.Prop, cfg.Replay)
			return 1
		}
		if co.res == nil {
			fmt.Println("replay: harness trouble:", co.stderr)
			return 2
		}
		if co.res.Reproduced {
			same := co.res.ReplayHash == rf.LogHash
			fmt.Printf("replay: reproduced rule=%s event-log hash %s (recorded %s, identical=%v)\n%s\n", co.res.ReplayRule, co.res.ReplayHash, rf.LogHash, same, co.res.Violations[0].Detail)
			fmt.Printf("VIOLATION property=%s replay=%s\n", cfg.Prop, cfg.Replay)
			return 1
		}
		fmt.Printf("replay: rule %s did not fail (first failing rule now: %q)\n", rf.Rule, co.res.ReplayRule)
		return 0
	}

	start := time.Now()
	agg := &aggregate{Stats: map[string]int{}, Probes: map[string]int{}, Inconclusive: map[string]int{}, Shapes: map[uint64]bool{}, Scheds: map[uint64]bool{}}
	total := p.QuickRuns()
	if s := envInt("VERIF_RUNS", 0); s > 0 {
		total = s
	}
	timeBoxed := cfg.Tier == "thorough"
	deadline := start.Add(time.Duration(cfg.BudgetS) * time.Second)
	chunk := total / (cfg.Workers * 4)
	if chunk < 50 {
		chunk = 50
	}
	if chunk > 2000 {
		chunk = 2000
	}
	if timeBoxed {
		chunk = 1000
	}
	var mu sync.Mutex
	next := 0
	take := func() (int, int, bool) {
		mu.Lock()
		defer mu.Unlock()
		if timeBoxed {
			if time.Now().After(deadline) {
				return 0, 0, false
			}
		} else if next >= total {
			return 0, 0, false
		}
		from := next
		to := next + chunk
		if !timeBoxed && to > total {
			to = total
		}
		next = to
		return from, to, true
	}
	trouble := false
	var wg sync.WaitGroup
	for wkr := 0; wkr < cfg.Workers; wkr++ {
		wg.Add(1)
		go func(wkr int) {
			defer wg.Done()
			for {
				from, to, ok := take()
				if !ok {
					return
				}
				single := false
				wdRetried := false
				for from < to {
					spec := WorkerSpec{Prop: cfg.Prop, Tier: cfg.Tier, Seed: cfg.Seed, From: from, To: to, Out: filepath.Join(cfg.WorkDir, fmt.Sprintf("w%d-%d.json", wkr, from)), ReplayDir: cfg.ReplayDir}
					gmp := 1
					if cfg.Prop == "C14" && !single {
						gmp = []int{1, 4, 16}[(from/max(chunk, 1))%3]
					}
					co := runChild(cfg, spec, gmp)
					if co.res != nil {
						agg.merge(co.res)
						break
					}
					if gmp > 1 && toolchainTimerCrash(co.stderr) {
						// not the code under test: see toolchainTimerCrash. The rest of the chunk runs on one P.
						agg.mu.Lock()
						agg.Stats["toolchain.race-synctest-timer-crash.retried-single-P"]++
						agg.mu.Unlock()
						single = true
						if co.lastIdx > from {
							from = co.lastIdx
						}
						continue
					}
					if co.lockhang != "" && co.lastIdx >= 0 {
						// the run at lastIdx hangs because a goroutine of the code under test waits for a lock
						// that is held across a simulated network operation. Where the property is about time
						// (C05: a slow write delays the timing of other probes' replies; C08: a blocked
						// operation keeps the other goroutine from honouring deadlines and cancellation) that is a
						// violation; elsewhere the scenario simply cannot be simulated.
						msg := fmt.Sprintf("run %d cannot make progress: goroutine(s) of the code under test wait for a lock while another goroutine of the run is inside a Source/Sink operation (which may take arbitrarily long): %s", co.lastIdx, co.lockhang)
						if cfg.Prop == "C05" || cfg.Prop == "C08" {
							sc := GenScenario(p, cfg.Tier, cfg.Seed, co.lastIdx)
							rf := ReplayFile{Property: p.ID(), Rule: cfg.Prop + ".lock-held-across-io", Detail: msg, Facts: map[string]string{"waiters": co.lockhang}, Scenario: sc}
							os.MkdirAll(cfg.ReplayDir, 0o755)
							path := fmt.Sprintf("%s/%s-%d-%d-lockhang.json", cfg.ReplayDir, p.ID(), cfg.Seed, co.lastIdx)
							b, _ := json.MarshalIndent(rf, "", " ")
							os.WriteFile(path, b, 0o644)
							agg.mu.Lock()
							agg.Violations = append(agg.Violations, FoundViolation{Violation: props.Violation{Rule: rf.Rule, Detail: msg, Facts: rf.Facts}, Index: co.lastIdx, Replay: path})
							agg.Runs++
							agg.mu.Unlock()
						} else {
							agg.mu.Lock()
							agg.Stats["lockhang.skipped-run"]++
							if agg.Stats["lockhang.skipped-run"] <= 3 {
								agg.Trouble = append(agg.Trouble, msg)
							}
							agg.mu.Unlock()
							mu.Lock()
							trouble = true
							mu.Unlock()
						}
						agg.mu.Lock()
						agg.Stats["lockhang.runs"]++
						many := agg.Stats["lockhang.runs"] > 6
						agg.mu.Unlock()
						if many {
							// every further hang costs seconds of real time and says nothing new
							agg.mu.Lock()
							agg.Stats["lockhang.chunks-abandoned"]++
							agg.mu.Unlock()
							break
						}
						from = co.lastIdx + 1
						continue
					}
					if co.watchdog && !wdRetried {
						// the watchdog measures real time, so a starved machine can trip it on a run that is fine
						// (seen once: C05 quick, seed 72, while another full check shared the cores). The chunk is a
						// pure function of the seed, so it is run again once, whole; a run that really does not end
						// trips it again and is reported as trouble (exit 2) as before.
						wdRetried = true
						agg.mu.Lock()
						agg.Stats["harness.watchdog.chunk-retried"]++
						agg.mu.Unlock()
						continue
					}
					if co.watchdog || !co.crashed || co.lastIdx < 0 {
						agg.mu.Lock()
						agg.Trouble = append(agg.Trouble, fmt.Sprintf("worker for [%d,%d) failed (exit %d): %s", from, to, co.exit, tailOf(co.stderr, 600)))
						agg.mu.Unlock()
						mu.Lock()
						trouble = true
						mu.Unlock()
						break
					}
					// a run killed the worker: triage it, then carry on after it
					agg.mu.Lock()
					nCrash := 0
					for _, v := range agg.Violations {
						if v.Rule == "crash" {
							nCrash++
						}
					}
					agg.mu.Unlock()
					if nCrash < 6 {
						if fv := triageCrash(cfg, p, co.lastIdx, co.stderr); fv != nil {
							agg.mu.Lock()
							agg.Violations = append(agg.Violations, *fv)
							agg.Runs++
							agg.mu.Unlock()
						} else {
							agg.mu.Lock()
							agg.Trouble = append(agg.Trouble, fmt.Sprintf("worker died at index %d but the scenario does not crash on its own: %s", co.lastIdx, tailOf(co.stderr, 600)))
							agg.mu.Unlock()
							mu.Lock()
							trouble = true
							mu.Unlock()
						}
					} else {
						agg.mu.Lock()
						agg.Stats["crash.untriaged"]++
						agg.Runs++
						agg.mu.Unlock()
					}
					from = co.lastIdx + 1
				}
			}
		}(wkr)
	}
	wg.Wait()
	wall := time.Since(start).Seconds()

	// classify violations against the known-findings file
	var unknown []FoundViolation
	knownSeen := map[string]FoundViolation{}
	seenKey := map[string]bool{}
	for _, v := range agg.Violations {
		if f := findings.match(cfg.Prop, v.Violation); f != nil {
			if _, ok := knownSeen[f.raw]; !ok {
				knownSeen[f.raw] = v
			}
			continue
		}
		k := vkey(v.Violation)
		if seenKey[k] {
			continue
		}
		seenKey[k] = true
		unknown = append(unknown, v)
	}
	var knownKeys []string
	for k := range knownSeen {
		knownKeys = append(knownKeys, k)
	}
	sort.Strings(knownKeys)
	for _, k := range knownKeys {
		f := findings.byRaw(k)
		fmt.Printf("KNOWN-FINDING: property=%s rule=%s %s (replay of this occurrence: %s)\n", cfg.Prop, f.rule, f.text, knownSeen[k].Replay)
	}
	// keep only the replay files that are reported
	keep := map[string]bool{}
	for _, v := range unknown {
		keep[v.Replay] = true
	}
	for _, v := range knownSeen {
		keep[v.Replay] = true
	}
	for _, v := range agg.Violations {
		if v.Replay != "" && !keep[v.Replay] {
			os.Remove(v.Replay)
		}
	}
	if len(agg.DetMismatch) > 0 {
		agg.Trouble = append(agg.Trouble, fmt.Sprintf("determinism probe: %d of %d double executions differed (indices %v)", len(agg.DetMismatch), agg.DetRuns, agg.DetMismatch))
		trouble = true
	}
	writeEvidence(cfg, p, agg, wall, len(unknown), knownKeys)
	fmt.Printf("runs=%d nontrivial=%d distinct_shapes=%d distinct_interleavings=%d simulated=%.0fs wall=%.1fs violations=%d known=%d violating_runs=%d\n",
		agg.Runs, agg.NonTrivial, len(agg.Shapes), len(agg.Scheds), agg.VirtualS, wall, len(unknown), len(knownKeys), agg.Stats["violating-runs"])
	sort.Slice(unknown, func(i, j int) bool { return unknown[i].Index < unknown[j].Index })
	for _, v := range unknown {
		fmt.Printf("violation rule=%s index=%d facts=%v\n  %s\n", v.Rule, v.Index, v.Facts, v.Detail)
		fmt.Printf("VIOLATION property=%s replay=%s\n", cfg.Prop, v.Replay)
	}
	// not failures (nothing that replays), but never silent: counted in the evidence as well
	for _, n := range agg.Notes {
		fmt.Println("NOTE not-reproducible:", n)
	}
	if trouble {
		for _, t := range agg.Trouble {
			fmt.Println("HARNESS-TROUBLE:", t)
		}
	}
	// a violation is judged on the ledger of the execution in which it occurred, so it stands even
	// when another run of the batch showed harness trouble (e.g. the determinism probe, which a
	// change to the code under test can upset by making two of its timers coincide)
	if len(unknown) > 0 {
		return 1
	}
	if trouble {
		return 2
	}
	return 0
}

func tailOf(s string, n int) string {
	if len(s) > n {
		return s[len(s)-n:]
	}
	return s
}

func firstLine(s, prefix string) string {
	for _, l := range strings.Split(s, "\n") {
		if strings.HasPrefix(l, prefix) {
			return l
		}
	}
	return ""
}

package harness

import (
	"bufio"
	"crypto/sha256"
	"encoding/hex"
	"encoding/json"
	"fmt"
	"os"
	"path/filepath"
	"sort"
	"strings"
	"sync"

	"verifharness/props"
)

// finding is one "finding:" line of /verif/KNOWN_FINDINGS.txt:
//
//	finding: property=C09 rule=C09.abort match=variant=icmp4,cause=too-small -- what fails
type finding struct {
	prop  string
	rule  string
	match map[string]string
	text  string
	raw   string
}

type findingSet struct{ list []*finding }

func loadFindings(path string) *findingSet {
	fs := &findingSet{}
	f, err := os.Open(path)
	if err != nil {
		return fs
	}
	defer f.Close()
	sc := bufio.NewScanner(f)
	sc.Buffer(make([]byte, 1<<20), 1<<20)
	for sc.Scan() {
		line := strings.TrimSpace(sc.Text())
		if !strings.HasPrefix(line, "finding:") {
			continue
		}
		body := strings.TrimSpace(strings.TrimPrefix(line, "finding:"))
		text := ""
		if i := strings.Index(body, " -- "); i >= 0 {
			text = body[i+4:]
			body = body[:i]
		}
		fd := &finding{match: map[string]string{}, text: text, raw: line}
		for _, tok := range strings.Fields(body) {
			switch {
			case strings.HasPrefix(tok, "property="):
				fd.prop = strings.TrimPrefix(tok, "property=")
			case strings.HasPrefix(tok, "rule="):
				fd.rule = strings.TrimPrefix(tok, "rule=")
			case strings.HasPrefix(tok, "match="):
				for _, kv := range strings.Split(strings.TrimPrefix(tok, "match="), ",") {
					if i := strings.IndexByte(kv, '='); i > 0 {
						fd.match[kv[:i]] = kv[i+1:]
					}
				}
			}
		}
		if fd.prop != "" && fd.rule != "" {
			fs.list = append(fs.list, fd)
		}
	}
	return fs
}

// match returns the listed finding a violation corresponds to: same property, same rule, and every
// fact the finding names present with the same value (spaces in fact values are compared with '_').
func (fs *findingSet) match(prop string, v props.Violation) *finding {
	for _, f := range fs.list {
		if f.prop != prop || f.rule != v.Rule {
			continue
		}
		ok := true
		for k, want := range f.match {
			got := strings.ReplaceAll(v.Facts[k], " ", "_")
			if got != want {
				ok = false
				break
			}
		}
		if ok {
			return f
		}
	}
	return nil
}

func (fs *findingSet) byRaw(raw string) *finding {
	for _, f := range fs.list {
		if f.raw == raw {
			return f
		}
	}
	return nil
}

// ---------------------------------------------------------------------------------------------

var componentsReal = []string{
	"common.TracerouteParallel / TracerouteSerial / ToHops", "icmp, udp, tcp (SYN), sack drivers and packet builders", "packets.FrameParser + gopacket decoding",
	"packets cBPF programs (executed by x/net/bpf VM)", "traceroute.RunTraceroute / runTracerouteMulti / TCP fallback", "result (Normalize, EnrichWithReverseDns, RemovePrivateHops)",
	"reversedns fan-out", "cache wrapper + go-cache store", "publicip fetcher + net/http client + backoff", "server.TracerouteHandler",
	"kernel: UDP connect for local-address discovery, TCP listen for port reservation, TCP connect for the SACK handshake (loopback, private netns)",
}
var componentsStub = []string{
	"AF_PACKET capture socket and raw send socket (simulated endpoints on a shared simulated wire)", "kernel cBPF attach+drain (VM + queue flush)",
	"routers, targets, attackers (scripted reply plans)", "DNS resolver (reversedns.LookupAddrFn)", "HTTPS public-IP providers (Transport.DialTLSContext)",
	"clock, timers, sleeps (testing/synctest bubble)", "goroutine scheduling at seam operations (seeded baton scheduler)",
}
var componentsNotRun = []string{"cmd/ (cobra CLI)", "Windows/macOS back-ends, winconn", "legacy icmp/*_parser.go", "TCPv4.TracerouteSequentialSocket", "real AF_PACKET/raw sockets (C13)"}

func writeEvidence(cfg *supConfig, p props.Property, agg *aggregate, wall float64, nviol int, known []string) {
	faults := map[string]int{}
	other := map[string]int{}
	for k, v := range agg.Stats {
		if strings.HasPrefix(k, "fault.") || strings.HasPrefix(k, "pkt.perturb.") || strings.HasPrefix(k, "pkt.garbage.") || k == "pkt.noise" || k == "pkt.own" || strings.HasPrefix(k, "http.") {
			faults[k] = v
		} else {
			other[k] = v
		}
	}
	var samples []any
	for _, s := range agg.Samples {
		var v any
		json.Unmarshal(s, &v)
		samples = append(samples, v)
	}
	if len(samples) == 0 {
		samples = append(samples, "no non-trivial run in this batch")
	}
	// grid cells ("cell:" probes) are summarised, not listed
	probes := map[string]int{}
	cells, minHits := 0, -1
	for k, v := range agg.Probes {
		if strings.HasPrefix(k, "cell:") {
			cells++
			if minHits < 0 || v < minHits {
				minHits = v
			}
			continue
		}
		probes[k] = v
	}
	agg.Probes = probes
	hours := wall / 3600
	if hours <= 0 {
		hours = 1e-9
	}
	cov := map[string]any{
		"evaluations":             agg.Runs,
		"distinct_nontrivial":     len(agg.Shapes),
		"rule":                    p.Rule(),
		"samples":                 samples,
		"nontrivial_runs":         agg.NonTrivial,
		"runs_per_hour":           int(float64(agg.Runs) / hours),
		"seeds_per_hour":          int(float64(agg.Runs) / hours),
		"simulated_time_s":        agg.VirtualS,
		"faults_fired":            faults,
		"other_counters":          other,
		"rare_condition_probes":   agg.Probes,
		"distinct_interleavings":  len(agg.Scheds),
		"interleaving_measure":    "distinct SHA-256 hashes of the per-run release sequence (actor, operation, detail) chosen by the scheduler",
		"scheduler_choice_points": agg.Choices,
		"inconclusive_runs":       agg.Inconclusive,
		"determinism_probe":       map[string]any{"double_executions": agg.DetRuns, "mismatches": len(agg.DetMismatch)},
		"components_real":         componentsReal,
		"components_stub":         componentsStub,
		"components_not_run":      componentsNotRun,
		"known_findings_seen":     known,
		"grid_cells_hit":          cells,
		"grid_cell_min_hits":      minHits,
		"workers":                 cfg.Workers,
		"exhaustive":              false,
	}
	ev := map[string]any{
		"property_id": p.ID(),
		"tier":        cfg.Tier,
		"seed":        cfg.Seed,
		"level":       p.Level(),
		"coverage":    cov,
		"assumptions": append(p.Assumptions(), "one VERIF_SEED decides every scenario, schedule and fault; kernel-chosen ephemeral ports are treated symbolically"),
		"wall_s":      wall,
		"violations":  nviol,
	}
	b, _ := json.MarshalIndent(ev, "", " ")
	dir := filepath.Join(cfg.Root, "evidence")
	os.MkdirAll(dir, 0o755)
	os.WriteFile(filepath.Join(dir, p.ID()+".json"), b, 0o644)
}

// ---------------------------------------------------------------------------------------------
// selftest-determinism: the same (property, seed, index) executed in many processes at several
// GOMAXPROCS values must produce one event-log hash.

func selftestDeterminism(cfg *supConfig) int {
	ids := props.IDs()
	if only := os.Getenv("VERIF_ONLY"); only != "" {
		ids = strings.Split(only, ",")
	}
	nProc := envInt("VERIF_PROCS", 32)
	nRuns := envInt("VERIF_RUNS", 200)
	bad := 0
	for _, id := range ids {
		var mu sync.Mutex
		hashes := map[string]int{}
		perRun := map[int][]string{}
		gmps := make([]int, nProc)
		batchOf := make([]string, nProc)
		var wg sync.WaitGroup
		sem := make(chan struct{}, 16)
		for pi := 0; pi < nProc; pi++ {
			wg.Add(1)
			sem <- struct{}{}
			go func(pi int) {
				defer wg.Done()
				defer func() { <-sem }()
				// two thirds of the processes run the way every check runs (GOMAXPROCS=1) and must agree
				// exactly; one third runs at GOMAXPROCS 4/16 to expose goroutines of the code under test
				// that are awake at the same time between two seams (reported, not required to agree)
				gmp := []int{1, 1, 4, 1, 1, 16}[pi%6]
				gmps[pi] = gmp
				spec := WorkerSpec{Prop: id, Tier: cfg.Tier, Seed: cfg.Seed, From: 0, To: nRuns, Out: filepath.Join(cfg.WorkDir, fmt.Sprintf("det-%s-%d.json", id, pi)), ReplayDir: filepath.Join(cfg.WorkDir, "replays"), NoShrink: true, DetEvery: 1 << 30}
				b, _ := json.Marshal(spec)
				_ = b
				co, per := runChildHash(cfg, spec, gmp)
				mu.Lock()
				hashes[co]++
				batchOf[pi] = co
				perRun[pi] = per
				mu.Unlock()
			}(pi)
		}
		wg.Wait()
		var keys []string
		for k := range hashes {
			keys = append(keys, k)
		}
		sort.Strings(keys)
		status := "OK"
		strict := map[string]bool{}
		for pi := 0; pi < nProc; pi++ {
			if gmps[pi] == 1 {
				strict[batchOf[pi]] = true
			}
		}
		if len(strict) != 1 || strings.HasPrefix(keys[0], "ERR") {
			bad++
		}
		if len(keys) != 1 || strings.HasPrefix(keys[0], "ERR") {
			status = "schedule-sensitive only at GOMAXPROCS>1 (informational);"
			if len(strict) != 1 {
				status = "MISMATCH at GOMAXPROCS=1;"
			}
			// which run indices differ between processes?
			diff := map[int]bool{}
			for pi := 1; pi < nProc; pi++ {
				a, b := perRun[0], perRun[pi]
				for k := 0; k < len(a) && k < len(b); k++ {
					if a[k] != b[k] {
						diff[k] = true
					}
				}
			}
			var idx []int
			for k := range diff {
				idx = append(idx, k)
			}
			sort.Ints(idx)
			status += fmt.Sprintf(" differing run indices: %v", idx)
		}
		fmt.Printf("determinism %s: %d processes x %d runs (2/3 at GOMAXPROCS 1, 1/3 at 4/16) -> %d distinct batch hashes %v %s\n", id, nProc, nRuns, len(keys), keys, status)
	}
	if bad > 0 {
		return 2
	}
	return 0
}

// runChildHash runs a worker in hash mode and returns the hash over all per-run event-log hashes.
func runChildHash(cfg *supConfig, spec WorkerSpec, gomaxprocs int) (string, []string) {
	os.Setenv("VERIF_HASHMODE", "1")
	co := runChild(cfg, spec, gomaxprocs)
	if co.res == nil {
		return "ERR:" + firstLine(co.stderr, "panic:") + tailOf(co.stderr, 200), nil
	}
	h := sha256.Sum256([]byte(co.res.ReplayHash))
	return hex.EncodeToString(h[:6]), co.res.RunHashes
}

package harness

import (
	"encoding/json"
	"fmt"
	"os"
	"testing"

	"verifharness/sim"
)

func TestDbg(t *testing.T) {
	f := os.Getenv("DBG_REPLAY")
	if f == "" {
		t.Skip()
	}
	b, _ := os.ReadFile(f)
	var rf ReplayFile
	json.Unmarshal(b, &rf)
	out := sim.Execute(t, rf.Scenario, true)
	fmt.Printf("listeners: %+v\n", out.W.Listeners())
	for _, c := range out.W.Calls {
		fmt.Printf("call %d err=%v panic=%q\n", c.Idx, c.Err, c.Panic)
		if c.Results != nil {
			j, _ := json.Marshal(c.Results)
			fmt.Println(string(j))
		}
		if c.Run != nil {
			j, _ := json.Marshal(c.Run)
			fmt.Println(string(j))
		}
	}
	fmt.Println("fired:", out.W.Fired, "deadlock:", out.Deadlock, "left:", out.LeftParked)
	if os.Getenv("DBG_LOG") != "" {
		for _, l := range out.W.Log.Lines {
			fmt.Println(l)
		}
	}
}

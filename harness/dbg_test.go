package harness

import (
	"encoding/json"
	"fmt"
	"os"
	"strings"
	"testing"
	"verifharness/props"

	"verifharness/sim"
)

func TestDbg(t *testing.T) {
	if g := os.Getenv("DBG_GEN"); g != "" {
		// "C11:1:6984" -> generate and execute several times, diff the event logs
		var id string
		var seed uint64
		var idx int
		fmt.Sscanf(strings.ReplaceAll(g, ":", " "), "%s %d %d", &id, &seed, &idx)
		p := props.Get(id)
		var first []string
		for rep := 0; rep < 40; rep++ {
			out := sim.Execute(t, GenScenario(p, "quick", seed, idx), true)
			if rep == 0 {
				first = out.W.Log.Lines
				fmt.Println("hash", out.LogHash, "lines", len(first))
				continue
			}
			lines := out.W.Log.Lines
			for i := 0; i < len(first) || i < len(lines); i++ {
				a, b := "", ""
				if i < len(first) {
					a = first[i]
				}
				if i < len(lines) {
					b = lines[i]
				}
				if a != b {
					fmt.Printf("rep %d differs at line %d:\n  %s\n  %s\n", rep, i, a, b)
					for k := max(0, i-12); k < i; k++ {
						fmt.Println("   ", first[k])
					}
					return
				}
			}
		}
		fmt.Println("no difference in 40 executions")
		return
	}
	f := os.Getenv("DBG_REPLAY")
	if f == "" {
		t.Skip()
	}
	b, _ := os.ReadFile(f)
	var rf ReplayFile
	json.Unmarshal(b, &rf)
	out := sim.Execute(t, rf.Scenario, true)
	fmt.Printf("listeners: %+v\n", out.W.Listeners())
	for _, c := range out.W.Calls {
		fmt.Printf("call %d err=%v panic=%q\n", c.Idx, c.Err, c.Panic)
		if c.Results != nil {
			j, _ := json.Marshal(c.Results)
			fmt.Println(string(j))
		}
		if c.Run != nil {
			j, _ := json.Marshal(c.Run)
			fmt.Println(string(j))
		}
	}
	fmt.Println("fired:", out.W.Fired, "deadlock:", out.Deadlock, "left:", out.LeftParked)
	if os.Getenv("DBG_LOG") != "" {
		for _, l := range out.W.Log.Lines {
			fmt.Println(l)
		}
	}
}

func TestDbgScen(t *testing.T) {
	g := os.Getenv("DBG_SCEN")
	if g == "" {
		t.Skip()
	}
	var id string
	var seed uint64
	var idx int
	fmt.Sscanf(strings.ReplaceAll(g, ":", " "), "%s %d %d", &id, &seed, &idx)
	sc := GenScenario(props.Get(id), "quick", seed, idx)
	b, _ := json.Marshal(sc)
	fmt.Println(string(b))
}

func TestDbgPkt(t *testing.T) {
	g := os.Getenv("DBG_PKT")
	if g == "" {
		t.Skip()
	}
	var id string
	var seed uint64
	var idx, pkt int
	fmt.Sscanf(strings.ReplaceAll(g, ":", " "), "%s %d %d %d", &id, &seed, &idx, &pkt)
	p := props.Get(id)
	seen := map[string]bool{}
	for rep := 0; rep < 60; rep++ {
		out := sim.Execute(t, GenScenario(p, "quick", seed, idx), true)
		pk := out.W.Pkts[pkt]
		key := fmt.Sprintf("%+v", pk.Ep)
		if !seen[key] {
			seen[key] = true
			fmt.Printf("rep %d pkt%d origin=%+v ether=%x only=%d\n  bytes=%x\n  fate=%+v\n", rep, pkt, pk.Origin, pk.Ether, pk.OnlyEp, pk.Bytes, pk.Ep)
			for _, ep := range out.W.Eps {
				for _, f := range ep.Filters {
					fmt.Printf("  %s filter at %v: %+v err=%q\n", ep.Actor, f.At, f.Spec, f.Err)
				}
			}
		}
	}
}

func TestDbgOne(t *testing.T) {
	g := os.Getenv("DBG_ONE")
	if g == "" {
		t.Skip()
	}
	var id string
	var seed uint64
	var idx int
	fmt.Sscanf(strings.ReplaceAll(g, ":", " "), "%s %d %d", &id, &seed, &idx)
	p := props.Get(id)
	// warm the process the way a worker would be warm: run the preceding indices first
	from := idx - envInt("DBG_WARM", 0)
	if from < 0 {
		from = 0
	}
	for i := from; i < idx; i++ {
		sim.Execute(t, GenScenario(p, "quick", seed, i), false)
	}
	out := sim.Execute(t, GenScenario(p, "quick", seed, idx), true)
	os.WriteFile(os.Getenv("DBG_OUT"), []byte(strings.Join(out.W.Log.Lines, "\n")+"\n"), 0o644)
	fmt.Println("HASH", out.LogHash[:12])
}

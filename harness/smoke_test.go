package harness

import (
	"testing"
	"testing/synctest"
	"time"

	"github.com/DataDog/datadog-traceroute/packets"
	"golang.org/x/net/bpf"
	gocache "github.com/patrickmn/go-cache"
)

func TestSmoke(t *testing.T) {
	synctest.Test(t, func(t *testing.T) {
		s := time.Now()
		time.Sleep(time.Hour)
		if time.Since(s) != time.Hour {
			t.Fatal("clock")
		}
		_ = packets.VerifNewSourceSink
		_ = bpf.NewVM
		_ = gocache.New
	})
}

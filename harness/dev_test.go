package harness

import (
	"encoding/json"
	"fmt"
	"testing"

	"verifharness/sim"
)

func TestDevICMP(t *testing.T) {
	sc := &sim.Scenario{Property: "dev", Calls: []sim.Call{{Entry: "icmp", Target: "8.8.8.8", MinTTL: 1, MaxTTL: 6, TimeoutMs: 1000, DelayMs: 10, PollMs: 100}},
		Flows: []sim.Flow{{Actor: "c0", Hops: []sim.HopPlan{
			{TTL: 1, From: "10.0.0.1", Replies: []sim.Reply{{Form: "te28", DelayUs: 1500}}},
			{TTL: 2, From: "20.0.0.2", Replies: []sim.Reply{{Form: "teFull", DelayUs: 2500}}},
			{TTL: 4, From: "8.8.8.8", Replies: []sim.Reply{{Form: "echo", DelayUs: 4000}}},
			{TTL: 5, From: "8.8.8.8", Replies: []sim.Reply{{Form: "echo", DelayUs: 4000}}},
		}}},
		Tape: []uint32{1, 0, 1, 1, 0, 1},
	}
	out := sim.Execute(t, sc, true)
	cs := out.W.Calls[0]
	fmt.Println("err:", cs.Err, "panic:", cs.Panic, "deadlock:", out.Deadlock, "virtual:", out.Virtual, "real us:", out.RealNs/1000)
	if cs.Run != nil {
		b, _ := json.Marshal(cs.Run)
		fmt.Println(string(b))
	}
	for _, l := range out.W.Log.Lines {
		fmt.Println(l)
	}
	fmt.Println(out.LogHash, out.W.Stats)
}

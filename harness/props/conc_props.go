package props

import (
	"encoding/binary"
	"fmt"
	"math/rand/v2"
	"net/netip"
	"strings"
	"time"

	"verifharness/codec"
	"verifharness/oracle"
	"verifharness/sim"

	"github.com/DataDog/datadog-traceroute/packets"
)

// ---------------------------------------------------------------------------------------------
// C11

type c11 struct{}

func init() { register(c11{}) }

func (c11) ID() string     { return "C11" }
func (c11) Level() string  { return "exploration" }
func (c11) QuickRuns() int { return 60000 }
func (c11) Rule() string {
	return "2-8 concurrent protocol-level runs of mixed protocols to the same or different targets, 2-4 runs of one variant that follow each other in the process towards one target and port (late replies of a run arrive while the next one listens), and RunTraceroute requests with 1-4 runs plus 0-6 (occasionally 50) end-to-end probes, all on one simulated wire where every capture handle sees every inbound packet (and, per knob, every outgoing probe); every flow has its own router addresses so cross-talk is visible; SACK runs may share one target address:port with SYN-ACKs delayed until every handle is open (overlapping handshakes), and the simulated target answers probes outside its connection's window with a bare ACK; IP-ID and echo-id allocators start at seeded bases near their wrap points; each run must equal the reference fold of its own genuine replies, and identifiers of simultaneously live runs must be disjoint; non-trivial = at least two endpoints were live at the same time and one of them read a packet caused by another; distinct = distinct shapes"
}
func (c11) Assumptions() []string {
	return []string{"UDP and TCP SYN run with strict quoted-source checking (relaxed mode cannot tell apart flows that differ only in their source, by its definition)", "SACK targets are distinct loopback listeners; their ISNs are at least 2^20 apart, as kernel ISNs are"}
}

func (c11) Gen(rng *rand.Rand, tier string, i int) *sim.Scenario {
	if i%10 >= 7 {
		o := requestOpts{queriesMin: 1, queriesMax: 4, e2eMax: 6, bigE2E: 0.01}
		if tier == "thorough" {
			o.queriesMax, o.e2eMax, o.bigE2E = 6, 10, 0.05
		}
		sc := genRequestScenario("C11", rng, o)
		sc.Knobs.CaptureOutgoing = chance(rng, 0.5)
		applyWrapBases(rng, sc)
		return sc
	}
	if i%10 == 6 {
		return genSequentialRuns(rng)
	}
	n := between(rng, 2, 8)
	if tier == "thorough" && chance(rng, 0.2) {
		n = between(rng, 9, 14)
	}
	variants := []Variant{{Entry: "icmp"}, {Entry: "icmp", V6: true}, {Entry: "udp"}, {Entry: "udp", V6: true}, {Entry: "tcp"}, {Entry: "tcp", Paris: true}, {Entry: "sack"}, {Entry: "sack", Loosen: true}}
	if chance(rng, 0.3) {
		// all runs of one protocol towards one target
		variants = []Variant{pick(rng, variants[:6]...)}
	}
	// runs asking for the whole TTL range (last TTL 255): identifier blocks are sized from the last TTL
	whole := chance(rng, 0.06)
	if whole {
		variants = []Variant{{Entry: "tcp"}, {Entry: "tcp"}, {Entry: "icmp"}, {Entry: "udp"}}
		n = between(rng, 2, 3)
	}
	var runs []*wireRun
	for k := 0; k < n; k++ {
		o := &wireOpts{variants: variants, silentProb: 0.25, noDest: 0.2, wellTimed: true, overtake: true}
		wr := genWireRun(rng, o, k, fmt.Sprintf("c%d", k))
		c := &wr.call
		if wr.v.Entry != "sack" && chance(rng, 0.4) {
			if wr.v.V6 {
				c.Target = "2001:db8:99::9"
			} else {
				c.Target = "203.0.113.9"
			}
			for hi := range wr.flow.Hops {
				if wr.flow.Hops[hi].From == wr.v.target(k) {
					wr.flow.Hops[hi].From = c.Target
				}
			}
		}
		if wr.v.Entry != "icmp" && wr.v.Entry != "sack" {
			c.Port = pick(rng, 33434, 33434, 443)
		}
		c.StartUs = int64(pick(rng, 0, 0, 0, between(rng, 1, 60000)))
		if c.MaxTTL-c.MinTTL > 6 {
			c.MaxTTL = c.MinTTL + 6
		}
		if whole {
			if wr.dest == 0 && wr.v.Entry == "tcp" {
				c.TimeoutMs = 300 // 250 unanswered TTLs in the serial engine
			}
			c.MaxTTL = 255
			if c.DelayMs > 5 {
				c.DelayMs = 5
			}
		}
		if wr.v.Entry == "tcp" {
			lim := int64(c.TimeoutMs-100)*1000 - 1000
			for hi := range wr.flow.Hops {
				for ri := range wr.flow.Hops[hi].Replies {
					r := &wr.flow.Hops[hi].Replies[ri]
					if r.DelayUs > lim {
						r.DelayUs = int64(between(rng, 50, int(lim)))
					}
					r.Dup = 0
				}
			}
		}
		if wr.v.Entry == "sack" {
			wr.lis.SynAckDelayUs = int64(pick(rng, 0, between(rng, 1, 3000), between(rng, 1000, 70000)))
			// several SACK runs towards one target address and port: their handshakes overlap on the wire
			for _, first := range runs {
				if first.v.Entry == "sack" && first.lis != nil && chance(rng, 0.5) {
					old := c.Target
					c.Target, c.Port = first.call.Target, first.call.Port
					wr.lis, wr.shared = nil, first
					for hi := range wr.flow.Hops {
						if wr.flow.Hops[hi].From == old {
							wr.flow.Hops[hi].From = c.Target
						}
					}
					break
				}
			}
		}
		runs = append(runs, wr)
	}
	sc := scenarioFor("C11", rng, runs)
	sc.Knobs.CaptureOutgoing = chance(rng, 0.5)
	applyWrapBases(rng, sc)
	sc.Tape = tape(rng, 96)
	return sc
}

// genSequentialRuns draws 2-4 runs of one variant towards one target and port that follow each other
// in one process: replies to a run's probes that are late for it arrive while the next run is
// listening (stale traffic of the same tool), and whatever state a run leaves behind in the process
// (allocators, package-level tables) is what the next run starts from.
func genSequentialRuns(rng *rand.Rand) *sim.Scenario {
	v := pick(rng, Variant{Entry: "icmp"}, Variant{Entry: "icmp", V6: true}, Variant{Entry: "udp"}, Variant{Entry: "udp", Loosen: true}, Variant{Entry: "udp", V6: true}, Variant{Entry: "udp", V6: true, Loosen: true}, Variant{Entry: "tcp"}, Variant{Entry: "tcp", Paris: true})
	n := between(rng, 2, 4)
	var runs []*wireRun
	start := int64(0)
	port := pick(rng, 33434, 443, between(rng, 1024, 65535))
	for k := 0; k < n; k++ {
		o := &wireOpts{variants: []Variant{v}, silentProb: 0.25, noDest: 0.2, wellTimed: true, overtake: true, lateProb: 0.3}
		wr := genWireRun(rng, o, k, fmt.Sprintf("c%d", k))
		c := &wr.call
		old := c.Target
		c.Target = v.target(0)
		for hi := range wr.flow.Hops {
			if wr.flow.Hops[hi].From == old {
				wr.flow.Hops[hi].From = c.Target
			}
		}
		if v.Entry != "icmp" {
			c.Port = port
		}
		if c.MaxTTL-c.MinTTL > 5 {
			c.MaxTTL = c.MinTTL + 5
		}
		if c.TimeoutMs > 500 {
			c.TimeoutMs = 500
		}
		if v.Entry == "tcp" {
			lim := int64(c.TimeoutMs-100)*1000 - 1000
			for hi := range wr.flow.Hops {
				for ri := range wr.flow.Hops[hi].Replies {
					r := &wr.flow.Hops[hi].Replies[ri]
					if r.DelayUs > lim && r.DelayUs < int64(c.TimeoutMs)*1000 {
						r.DelayUs = int64(between(rng, 50, int(lim)))
					}
					r.Dup = 0
				}
			}
		}
		c.StartUs = start
		start += int64(runBound(v.Entry, c, c.MaxTTL-c.MinTTL+1, false)/time.Microsecond) + int64(between(rng, 0, 20000))
		runs = append(runs, wr)
	}
	sc := scenarioFor("C11", rng, runs)
	sc.Note = "family=sequential"
	applyWrapBases(rng, sc)
	sc.Tape = tape(rng, 64)
	return sc
}

func (c11) Check(out *sim.Outcome, ri *RunInfo) []Violation {
	vs := crashViolations(out)
	ri.Shape = shapeOf(out.Sc)
	vws := views(out)
	// did anybody read a packet caused by another endpoint?
	for _, v := range vws {
		for _, rd := range v.Ep.Reads {
			if rd.Pkt >= 0 {
				if o := out.W.Pkts[rd.Pkt].Origin; o.Flow != "" && o.Flow != v.Ep.Actor {
					ri.NonTrivial = true
					ri.probe("foreign-packet-read")
					if o.Own {
						ri.probe("foreign-outgoing-probe-read")
					}
					break
				}
			}
		}
	}
	if noteField(out.Sc.Note, "family") == "sequential" {
		ri.probe("sequential-runs")
		for _, v := range vws {
			for _, rd := range v.Ep.Reads {
				if rd.Pkt >= 0 {
					if o := out.W.Pkts[rd.Pkt].Origin; o.Flow != "" && o.Flow < v.Ep.Actor && !o.Own {
						ri.probe("stale-reply-of-earlier-run-read")
					}
				}
			}
		}
	}
	for _, cs := range out.W.Calls {
		if cs.Err != nil {
			vs = append(vs, Violation{Rule: "C11.run-failed", Detail: fmt.Sprintf("call %d (%s) failed in a fault-free world: %v", cs.Idx, cs.C.Entry, cs.Err), Facts: facts("entry", cs.C.Entry)})
		}
	}
	for _, v := range vws {
		if v.Run == nil || strings.Contains(v.Ep.Actor, ".") {
			continue
		}
		if v.Fold.Ambiguous > 0 || (isSerial(v) && hasLateOrDup(v)) {
			ri.Inconclusive = "ambiguous-reference"
			continue
		}
		if d := v.Fold.Diff(v.Run.Hops); d != "" {
			vs = append(vs, Violation{Rule: "C11.crosstalk", Detail: fmt.Sprintf("%s (%s) differs from its solo reference: %s", v.Ep.Actor, variantOf(v), d), Facts: facts("variant", variantOf(v))})
		}
	}
	// the local port a UDP or TCP SYN run probes from is its own while it is alive
	for _, v := range vws {
		if v.Ep.PortNotReserved {
			vs = append(vs, Violation{Rule: "C11.port-not-reserved", Detail: fmt.Sprintf("%s (%s): when its first probe went out, another socket could bind the local port the run sends from: nothing keeps the kernel from handing that port to a concurrent run to the same target, whose replies would then be this run's", v.Ep.Actor, variantOf(v)), Facts: facts("variant", variantOf(v))})
			break
		}
	}
	// identifier ranges of simultaneously live runs
	type idset struct {
		v    *EpView
		ids  map[uint32]bool
		kind string
	}
	var sets []idset
	for _, v := range vws {
		s := idset{v: v, ids: map[uint32]bool{}}
		for _, p := range v.Ep.Probes {
			if p.IP == nil || p.L4 == nil {
				continue
			}
			switch {
			case v.Spec.Proto == "icmp":
				s.kind = "echo-id"
				s.ids[uint32(p.L4.ICMPID)] = true
			case v.Spec.Proto == "tcp" && !v.Spec.Paris:
				s.kind = "ip-id"
				s.ids[uint32(p.IP.ID)] = true
			}
		}
		if s.kind != "" {
			sets = append(sets, s)
		}
	}
	for a := 0; a < len(sets); a++ {
		for b := a + 1; b < len(sets); b++ {
			x, y := sets[a], sets[b]
			if x.kind != y.kind {
				continue
			}
			xe, ye := x.v.Ep, y.v.Ep
			xEnd, yEnd := xe.SrcClosedAt, ye.SrcClosedAt
			if xe.SrcClosed == 0 {
				xEnd = out.Virtual
			}
			if ye.SrcClosed == 0 {
				yEnd = out.Virtual
			}
			if xe.Created >= yEnd || ye.Created >= xEnd {
				continue
			}
			ri.probe("concurrent-" + x.kind + "-pair")
			for id := range x.ids {
				if y.ids[id] {
					vs = append(vs, Violation{Rule: "C11.id-overlap", Detail: fmt.Sprintf("%s and %s are live at the same time and both use %s %d", xe.Actor, ye.Actor, x.kind, id), Facts: facts("kind", x.kind)})
					break
				}
			}
		}
	}
	return vs
}

// ---------------------------------------------------------------------------------------------
// C12

type c12 struct{}

func init() { register(c12{}) }

func (c12) ID() string     { return "C12" }
func (c12) Level() string  { return "exploration" }
func (c12) QuickRuns() int { return 100000 }
func (c12) Rule() string {
	return "every simulated capture handle executes the repository's real cBPF program (obtained through the guarded accessor, run by the x/net/bpf VM on a synthetic Ethernet frame) on every packet that reaches it, in attribution, catalogue, garbage and concurrency scenarios; around each installed filter 8-40 frames are synthesised over the equivalence classes the programs inspect (ethertype, protocol, IHL 0..15, fragment offset and MF, each address/port byte equal/different with 0x01/0x7f/0x80/0xff patterns, all TCP flag bytes, IPv6 next-header chains incl. fragment header, truncation at every load offset); (a) no frame the reference matcher classes genuine for an endpoint (hop or handshake) may be rejected by its filter, (b) on frames with complete headers the verdict must equal a reference predicate written from the property text; non-trivial = a filter rejected at least one frame and accepted at least one; distinct = distinct shapes. Sampling over the class product, not its enumeration"
}
func (c12) Assumptions() []string {
	return []string{"frames the text does not decide (MF set with offset 0, frames shorter than the headers the program reads) are generated but only checked for the absence of VM errors", "the kernel attach/drain sequence itself is stubbed (queue flush at install)"}
}

func (c12) Gen(rng *rand.Rand, tier string, i int) *sim.Scenario {
	var sc *sim.Scenario
	switch i % 5 {
	case 0:
		sc = c01{}.Gen(rng, tier, i)
	case 1:
		sc = c02{}.Gen(rng, tier, i)
	case 2:
		sc = c09{}.Gen(rng, tier, i)
	case 3:
		sc = c11{}.Gen(rng, tier, i)
	default:
		// an IPv6 TCP target must be refused when the filter is installed
		if chance(rng, 0.3) {
			c := sim.Call{Entry: "tcp", Target: target6, Port: 443, MinTTL: 1, MaxTTL: 3, TimeoutMs: 300, DelayMs: 1}
			sc = &sim.Scenario{Calls: []sim.Call{c}, Note: "tcp6"}
		} else {
			sc = c20{}.Gen(rng, tier, i)
			sc.Faults = nil
			sc.Note = ""
		}
	}
	sc.Property = "C12"
	sc.Knobs.FrameNoise = between(rng, 8, 40)
	sc.Knobs.IgnoreFilters = false
	return sc
}

// refFilter is the reference predicate of the property text. decided=false for frames the text
// does not decide.
func refFilter(ft int, cfg packets.FilterConfig, frame []byte) (verdict, decided bool) {
	if len(frame) < 14 {
		return false, false
	}
	et := binary.BigEndian.Uint16(frame[12:14])
	switch packets.PacketFilterType(ft) {
	case packets.FilterTypeICMP:
		switch et {
		case 0x0800:
			if len(frame) < 24 {
				return false, false
			}
			return frame[23] == 1, true
		case 0x86dd:
			if len(frame) < 21 {
				return false, false
			}
			switch frame[20] {
			case 58:
				return true, true
			case 44:
				if len(frame) < 55 {
					return false, false
				}
				return frame[54] == 58, true
			}
			return false, true
		}
		return false, true
	case packets.FilterTypeTCP, packets.FilterTypeSYNACK:
		if et != 0x0800 {
			return false, true
		}
		if len(frame) < 34 {
			return false, false
		}
		proto := frame[23]
		if packets.PacketFilterType(ft) == packets.FilterTypeTCP && proto == 1 {
			return true, true
		}
		if proto != 6 {
			return false, true
		}
		if packets.PacketFilterType(ft) == packets.FilterTypeTCP {
			if netip.AddrFrom4([4]byte(frame[26:30])) != cfg.Src.Addr() || netip.AddrFrom4([4]byte(frame[30:34])) != cfg.Dst.Addr() {
				return false, true
			}
		}
		fo := binary.BigEndian.Uint16(frame[20:22])
		if fo&0x1fff != 0 {
			return false, true
		}
		if fo&0x2000 != 0 {
			return false, false // MF with offset 0
		}
		x := 4 * int(frame[14]&0xf)
		if packets.PacketFilterType(ft) == packets.FilterTypeTCP {
			if len(frame) < 14+x+4 {
				return false, false
			}
			sp := binary.BigEndian.Uint16(frame[14+x:])
			dp := binary.BigEndian.Uint16(frame[16+x:])
			return sp == cfg.Src.Port() && dp == cfg.Dst.Port(), true
		}
		if len(frame) < 14+x+14 {
			return false, false
		}
		fl := frame[14+x+13]
		return fl&codec.FlagSYN != 0 && fl&codec.FlagACK != 0, true
	}
	return false, false
}

func filterName(ft int) string {
	switch packets.PacketFilterType(ft) {
	case packets.FilterTypeICMP:
		return "icmp"
	case packets.FilterTypeTCP:
		return "tcp-tuple"
	case packets.FilterTypeSYNACK:
		return "synack"
	case packets.FilterTypeUDP:
		return "udp"
	}
	return "none"
}

func (c12) Check(out *sim.Outcome, ri *RunInfo) []Violation {
	vs := crashViolations(out)
	ri.Shape = shapeOf(out.Sc) + fmt.Sprint(out.Sc.Knobs.FrameNoise)
	if out.Sc.Note == "tcp6" {
		cs := out.W.Calls[0]
		ri.NonTrivial = true
		ri.probe("tcp6-target")
		if cs.Err == nil {
			vs = append(vs, Violation{Rule: "C12.verdict:tcp-tuple", Detail: "a TCP traceroute to an IPv6 target was not refused although no IPv6 tuple filter exists", Facts: facts("filter", "tcp-tuple")})
		}
		return vs
	}
	vws := views(out)
	specOf := map[int]*EpView{}
	for _, v := range vws {
		specOf[v.Ep.Idx] = v
	}
	rejected, accepted := 0, 0
	for _, p := range out.W.Pkts {
		var frame []byte
		for _, ep := range out.W.Eps {
			if len(p.Ep) <= ep.Idx {
				continue
			}
			pe := p.Ep[ep.Idx]
			if !pe.Seen || pe.FilterType == 0 {
				continue
			}
			if pe.VMErr != "" {
				vs = append(vs, Violation{Rule: "C12.verdict:" + filterName(pe.FilterType), Detail: fmt.Sprintf("%s: filter VM error on packet %d: %s", ep.Actor, p.ID, pe.VMErr), Facts: facts("filter", filterName(pe.FilterType), "kind", "vm-error")})
				continue
			}
			if pe.Accepted {
				accepted++
			} else {
				rejected++
			}
			// (a) nothing genuine may be hidden
			if !pe.Accepted {
				if v := specOf[ep.Idx]; v != nil {
					n := 0
					for _, pr := range ep.Probes {
						if pr.CallAt <= p.At {
							n++
						}
					}
					if m := oracle.RefMatch(v.Spec, ep.Probes[:n], p.Bytes); m.Kind == oracle.Genuine && p.Ether == 0 {
						vs = append(vs, Violation{Rule: "C12.hidden-reply", Detail: fmt.Sprintf("%s: the %s filter rejected a genuine %s reply for ttl %d (packet %d, origin %+v)", ep.Actor, filterName(pe.FilterType), m.Form, m.TTL, p.ID, p.Origin), Facts: facts("filter", filterName(pe.FilterType), "form", m.Form)})
					}
				}
				if p.Origin.Handshake && ep.SynAckPkt() == p.ID {
					vs = append(vs, Violation{Rule: "C12.hidden-reply", Detail: fmt.Sprintf("%s: the %s filter rejected the SYN-ACK of its own handshake", ep.Actor, filterName(pe.FilterType)), Facts: facts("filter", filterName(pe.FilterType), "form", "handshake")})
				}
			}
			// (b) exactness
			var cfg packets.FilterConfig
			for _, f := range ep.Filters {
				if int(f.Spec.FilterType) == pe.FilterType && f.Err == "" && f.At <= p.At {
					cfg = f.Spec.FilterConfig
				}
			}
			if frame == nil {
				frame = codec.EthernetFrame(p.Bytes, p.Ether)
			}
			want, decided := refFilter(pe.FilterType, cfg, frame)
			if !decided {
				ri.probe("undecided-frame")
				continue
			}
			ri.probe("decided." + filterName(pe.FilterType))
			if want != pe.Accepted {
				vs = append(vs, Violation{Rule: "C12.verdict:" + filterName(pe.FilterType), Detail: fmt.Sprintf("%s: %s filter (src %s dst %s) says accept=%v, the property says %v for frame %x", ep.Actor, filterName(pe.FilterType), cfg.Src, cfg.Dst, pe.Accepted, want, frame[:min(len(frame), 70)]), Facts: facts("filter", filterName(pe.FilterType), "kind", fmt.Sprint(want))})
			}
		}
	}
	if rejected > 0 && accepted > 0 {
		ri.NonTrivial = true
	}
	return vs
}

package props

import (
	"encoding/json"
	"fmt"
	"math/rand/v2"
	"net/netip"
	"strconv"
	"strings"

	"verifharness/codec"
	"verifharness/oracle"
	"verifharness/sim"
)

// ---------------------------------------------------------------------------------------------
// C19

type c19 struct{}

func init() { register(c19{}) }

func (c19) ID() string     { return "C19" }
func (c19) Level() string  { return "exploration" }
func (c19) QuickRuns() int { return 240000 }
func (c19) Rule() string {
	return "traceroute.RunTraceroute and the HTTP handler with boundary parameters: TTL bounds from {-1,0,1,2,29,30,254..258,300,511,65536+k} (min and max independently), ports {-1,0,1,65535,65536,70000}, protocol and TCP-method strings (valid, case variants, unknown, empty), target literals (IPv4, IPv6 incl. look-alikes of mapped addresses, bracketed, with and without port, the literal's port drawn from {1, 8443, 65535, 0, 00, 65536, 70000, -1, empty, non-numeric, > 2^32}), every protocol; either the call fails, or the wire shows exactly the requested TTL range towards exactly the requested address/port with the requested probe kind; non-trivial = at least one parameter is at or beyond a boundary; distinct = distinct parameter tuples"
}
func (c19) Assumptions() []string {
	return []string{"case variants of protocol/method strings and the Windows-only syn_socket method may be rejected or executed (don't-care)", "when the target literal carries its own port the separate port parameter is left at 0", "for ICMP the port value is don't-care (nothing on the wire carries it)", "a target literal with port 0 or an empty port may be rejected or mean the default port; it must never put port 0 on the wire"}
}

var ttlBoundary = []int{-1, 0, 1, 2, 29, 30, 254, 255, 256, 257, 258, 300, 511, 65536, 65537, 65566}

// genC19History draws two or three requests that one process serves one after the other (a few
// seconds apart) for the same target text: whatever the process remembers from an earlier request
// (a resolved target, a validated parameter, a cached default) must not leak into a later one with
// another port, protocol, method or TTL range. No listener-backed (SACK) requests, no replies: every
// run sends its whole TTL range.
func genC19History(rng *rand.Rand) *sim.Scenario {
	sc := &sim.Scenario{Property: "C19", Note: "family=history"}
	v6 := chance(rng, 0.3)
	host := target4
	if v6 {
		host = target6
	}
	target := host
	if v6 && chance(rng, 0.5) {
		target = "[" + host + "]"
	}
	n := between(rng, 2, 3)
	var at int64
	for k := 0; k < n; k++ {
		if k > 0 {
			at += int64(between(rng, 3, 20)) * 1000000
		}
		c := sim.Call{Entry: pick(rng, "run_traceroute", "run_traceroute", "http_handler"), StartUs: at}
		c.Protocol = pick(rng, "udp", "icmp", "tcp")
		if v6 && c.Protocol == "tcp" {
			c.Protocol = "udp"
		}
		if c.Protocol == "tcp" {
			c.Method = pick(rng, "syn", "")
		}
		c.WantV6 = v6
		c.Target = target
		c.Port = pick(rng, 0, 33434, 443, 8080, 1, 65535, 65536, 70000, -1, 53)
		c.MinTTL, c.MaxTTL = 1, between(rng, 1, 4)
		if c.Entry != "http_handler" && chance(rng, 0.3) {
			c.MinTTL = between(rng, 1, c.MaxTTL)
		}
		if chance(rng, 0.1) {
			c.MaxTTL = pick(rng, 0, 256, 300, -1)
		}
		c.TimeoutMs = pick(rng, 100, 150)
		c.Queries = between(rng, 1, 2)
		c.E2E = pick(rng, 0, 1)
		sc.Calls = append(sc.Calls, c)
	}
	sc.Knobs.RandSeed = int64(rng.Uint32())
	sc.Tape = tape(rng, 16)
	return sc
}

func (c19) Gen(rng *rand.Rand, tier string, i int) *sim.Scenario {
	if i%6 == 5 {
		return genC19History(rng)
	}
	c := sim.Call{Entry: "run_traceroute"}
	if chance(rng, 0.3) {
		c.Entry = "http_handler"
	}
	proto := pick(rng, "udp", "udp", "icmp", "icmp", "tcp", "tcp", "tcp")
	c.Protocol = proto
	if chance(rng, 0.12) {
		c.Protocol = pick(rng, "UDP", "Tcp", "ICMP", "", "sctp", "udp ", "tcp6")
	}
	v6 := proto != "tcp" && chance(rng, 0.35)
	c.WantV6 = v6
	host := target4
	if v6 {
		host = pick(rng, target6, target6, "2001:db8:abcd:12:0:ffff:a00:fffe", "2001:db8::ffff:c633:644d")
	}
	if proto == "tcp" {
		c.Method = pick(rng, "syn", "syn", "", "sack", "prefer_sack")
		if chance(rng, 0.15) {
			c.Method = pick(rng, "SYN", "Sack", "syn_socket", "bogus", "prefer-sack")
		}
		if c.Method == "sack" || c.Method == "prefer_sack" {
			host = "127.0.0.2"
		}
	}
	// target literal form; a port inside the literal is drawn from the same boundary set as the parameter
	withPort := false
	litPort := pick(rng, "8443", "1", "65535", "8443", "1", "65535", "0", "00", "65536", "70000", "-1", "", "http", "4294967297", "0443", "010", "00053", "080", "0x1bb", "0b11", "0o17", "4_43", "+443", "443 ", "0065535", "0065536")
	switch {
	case v6:
		switch rng.IntN(3) {
		case 0:
			c.Target = host
		case 1:
			c.Target = "[" + host + "]"
		default:
			withPort = true
			c.Target = fmt.Sprintf("[%s]:%s", host, litPort)
		}
	default:
		if chance(rng, 0.25) && host != "127.0.0.2" {
			withPort = true
			c.Target = fmt.Sprintf("%s:%s", host, litPort)
		} else {
			c.Target = host
		}
	}
	if !withPort {
		c.Port = pick(rng, 0, 33434, 443, -1, 1, 65535, 65536, 70000, 0, 8080)
	}
	// TTL bounds: usually one boundary value, sometimes both
	c.MinTTL, c.MaxTTL = 1, between(rng, 1, 6)
	switch rng.IntN(5) {
	case 0:
		c.MaxTTL = pick(rng, ttlBoundary...)
	case 1:
		c.MinTTL = pick(rng, ttlBoundary...)
		if c.MinTTL > 6 || c.MinTTL < 1 {
			c.MaxTTL = pick(rng, c.MinTTL, c.MinTTL+1, 255, 30, 300)
		}
	case 2:
		c.MinTTL, c.MaxTTL = pick(rng, ttlBoundary...), pick(rng, ttlBoundary...)
	case 3:
		c.MinTTL = between(rng, 250, 255)
		c.MaxTTL = 255
	}
	if c.Entry == "http_handler" {
		c.MinTTL = 1
	}
	c.TimeoutMs = pick(rng, 150, 300)
	c.DelayMs = pick(rng, 0, 1)
	c.Queries = between(rng, 1, 2)
	c.E2E = pick(rng, 0, 0, 1)
	if chance(rng, 0.2) {
		// end-to-end probes only: their parameters must be validated too
		c.Queries, c.E2E = 0, between(rng, 1, 2)
	}
	sc := &sim.Scenario{Property: "C19", Calls: []sim.Call{c}}
	if host == "127.0.0.2" {
		lp := c.Port
		if lp == 0 {
			lp = 33434
		}
		if lp < 1 || lp > 65535 {
			lp = 8080
		}
		sc.Listeners = []sim.Listener{{Addr: "127.0.0.2", Port: lp, Permitted: true, ISN: rng.Uint32(), ServerSeq: rng.Uint32()}}
		if c.Port >= 0 && c.Port <= 65535 {
			sc.Calls[0].Listener = 1 // the listener's kernel-chosen port replaces any representable port
		}
	}
	// a destination somewhere, so that early stopping is exercised too
	if c.MaxTTL >= 1 && c.MaxTTL <= 255 && c.MinTTL >= 1 && c.MinTTL <= c.MaxTTL && chance(rng, 0.5) {
		dest := between(rng, c.MinTTL, c.MaxTTL)
		for q := 1; q <= c.Queries; q++ {
			f := sim.Flow{Actor: fmt.Sprintf("run#%d", q)}
			form := map[string]string{"udp": "unreach:3", "icmp": "echo", "tcp": "synack"}[proto]
			if proto == "tcp" && (c.Method == "sack" || c.Method == "prefer_sack") {
				form = "sack"
			}
			for t := dest; t <= c.MaxTTL && t < dest+3; t++ {
				f.Hops = append(f.Hops, sim.HopPlan{TTL: t, From: host, Replies: []sim.Reply{{Form: form, DelayUs: int64(between(rng, 100, 40000))}}})
			}
			sc.Flows = append(sc.Flows, f)
		}
	}
	sc.Knobs.RandSeed = int64(rng.Uint32())
	sc.Tape = tape(rng, 16)
	return sc
}

func (c19) Check(out *sim.Outcome, ri *RunInfo) []Violation {
	vs := crashViolations(out)
	if len(out.W.Calls) > 1 {
		ri.probe("history.requests-in-one-process")
		ri.NonTrivial = true
	}
	// every request of the scenario is judged on its own parameters: what an earlier request of the
	// same process asked for must not show in a later one
	for k, cs := range out.W.Calls {
		if !cs.Started {
			continue
		}
		for _, v := range c19CheckCall(out, cs, ri) {
			if k > 0 {
				v.Detail = fmt.Sprintf("request #%d of the process (after %s): ", k+1, c19Brief(out.W.Calls[k-1].C)) + v.Detail
				if v.Facts != nil {
					v.Facts["history"] = "later-request"
				}
			}
			vs = append(vs, v)
		}
	}
	return vs
}

func c19Brief(c *sim.Call) string {
	return fmt.Sprintf("%s/%s target %s port %d ttl %d..%d", c.Protocol, c.Method, c.Target, c.Port, c.MinTTL, c.MaxTTL)
}

func c19CheckCall(out *sim.Outcome, cs *sim.CallState, ri *RunInfo) []Violation {
	var vs []Violation
	c := cs.C
	ri.Shape += fmt.Sprintf("%s|%s|%s|%s|%d|%d|%d|%v;", c.Entry, c.Protocol, c.Method, c.Target, c.Port, c.MinTTL, c.MaxTTL, c.WantV6)
	failed := cs.Err != nil
	if c.Entry == "http_handler" {
		failed = cs.HTTPStatus >= 400
	}
	boundary := c.MinTTL < 1 || c.MaxTTL > 254 || c.MinTTL > 250 || c.Port < 1 || c.Port > 65534 || c.MinTTL > c.MaxTTL
	knownProto := c.Protocol == "udp" || c.Protocol == "tcp" || c.Protocol == "icmp"
	knownMethod := c.Method == "" || c.Method == "syn" || c.Method == "sack" || c.Method == "prefer_sack"
	if boundary || !knownProto || !knownMethod {
		ri.NonTrivial = true
	}
	fct := func(param string) map[string]string {
		return facts("entry", c.Entry, "protocol", c.Protocol, "param", param)
	}
	// what must be rejected
	mustReject := ""
	switch {
	case c.MinTTL < 1 || c.MinTTL > 255:
		mustReject = "minTTL"
	case c.MaxTTL < 1 || c.MaxTTL > 255:
		mustReject = "maxTTL"
	case c.MinTTL > c.MaxTTL:
		mustReject = "minTTL>maxTTL"
	case strings.ToLower(strings.TrimSpace(c.Protocol)) != "udp" && strings.ToLower(strings.TrimSpace(c.Protocol)) != "tcp" && strings.ToLower(strings.TrimSpace(c.Protocol)) != "icmp":
		mustReject = "protocol"
	case c.Protocol == "tcp" && (c.Method == "bogus" || c.Method == "prefer-sack"):
		mustReject = "method"
	case c.Protocol != "icmp" && knownProto && (c.Port < 0 || c.Port > 65535):
		mustReject = "port"
	}
	// a port inside the target literal: a number outside 0..65535 or a non-number cannot be put on the
	// wire; 0 and the empty port may be rejected or mean the default (don't-care), never wire port 0
	lit, hasLit := literalPort(c.Target)
	litDontCare := false
	if hasLit && mustReject == "" {
		ri.NonTrivial = true
		n, err := strconv.Atoi(lit)
		if t := strings.TrimSpace(lit); err != nil && t != lit {
			// white space around the literal: trimming it first (and then judging the number) or refusing
			// the literal are both faithful; the value on the wire, if any, must be the trimmed number
			if tn, terr := strconv.Atoi(t); terr == nil && tn >= 1 && tn <= 65535 {
				litDontCare, n, err = true, tn, nil
				lit = strconv.Itoa(tn)
			}
		}
		switch {
		case lit == "":
			litDontCare = true
		case err != nil || n < 0 || n > 65535:
			if c.Protocol != "icmp" {
				mustReject = "literal-port"
			} else {
				litDontCare = true
			}
		case n == 0:
			litDontCare = true
		case strconv.Itoa(n) != lit:
			litDontCare = true // leading zeros or a sign: rejecting is fine, executing must use the decimal value
		}
	}
	if mustReject != "" {
		ri.probe("must-reject." + mustReject)
		if !failed {
			probed := ""
			for _, ep := range out.W.Eps {
				if ep.Created < cs.StartAt || (cs.EndAt > 0 && ep.Created > cs.EndAt) {
					continue
				}
				for _, p := range ep.Probes {
					if len(probed) < 120 {
						probed += fmt.Sprintf(" %s:ttl%d", ep.Actor, p.TTL())
					}
				}
			}
			vs = append(vs, Violation{Rule: "C19.wrapped:" + mustReject, Detail: fmt.Sprintf("minTTL=%d maxTTL=%d port=%d protocol=%q method=%q was accepted instead of rejected; probes on the wire:%s", c.MinTTL, c.MaxTTL, c.Port, c.Protocol, c.Method, probed), Facts: fct(mustReject)})
		}
		return vs
	}
	if failed {
		ri.probe("rejected-or-failed")
		// a representable request with a known protocol/method must not fail in a fault-free world,
		// except for the don't-care spellings
		// (for ICMP nothing on the wire carries the port: refusing a port that no wire could carry is as
		// faithful as ignoring it)
		icmpPortOutOfRange := c.Protocol == "icmp" && (c.Port < 0 || c.Port > 65535)
		if knownProto && knownMethod && !(c.Protocol == "tcp" && c.WantV6) && !litDontCare && !icmpPortOutOfRange {
			detail := fmt.Sprint(cs.Err)
			if c.Entry == "http_handler" {
				detail = fmt.Sprintf("HTTP %d %s", cs.HTTPStatus, strings.TrimSpace(string(cs.HTTPBody)))
			}
			vs = append(vs, Violation{Rule: "C19.rejected-valid", Detail: fmt.Sprintf("well-formed request (ttl %d..%d port %d %s/%s target %s) failed: %s", c.MinTTL, c.MaxTTL, c.Port, c.Protocol, c.Method, c.Target, detail), Facts: fct("valid")})
		}
		return vs
	}
	if !knownProto || !knownMethod {
		return vs // executed a don't-care spelling
	}
	// executed: the wire must show exactly what was asked
	wantAddr, wantPort := expectedTarget(c, cs.ResolvedPort)
	for _, v := range views(out) {
		ep := v.Ep
		if len(ep.Probes) == 0 || v.Call != cs {
			continue
		}
		minT, maxT := c.MinTTL, c.MaxTTL
		if ep.Role == "e2e" {
			minT = maxT
		}
		destSeen := v.Fold.LowestDest > 0
		for k, p := range ep.Probes {
			if p.IP == nil || p.L4 == nil {
				continue
			}
			if p.TTL() != minT+k {
				vs = append(vs, Violation{Rule: "C19.wrapped:ttl", Detail: fmt.Sprintf("%s: probe #%d carries ttl %d, requested range %d..%d", ep.Actor, k+1, p.TTL(), minT, maxT), Facts: fct("ttl")})
				break
			}
			if p.IP.Dst.Unmap() != wantAddr {
				vs = append(vs, Violation{Rule: "C19.wrong-target", Detail: fmt.Sprintf("%s: probe goes to %s, requested %s", ep.Actor, p.IP.Dst, wantAddr), Facts: fct("target")})
				break
			}
			if c.Protocol != "icmp" && int(p.L4.DstPort) != wantPort {
				vs = append(vs, Violation{Rule: "C19.wrong-target", Detail: fmt.Sprintf("%s: probe goes to port %d, requested %d", ep.Actor, p.L4.DstPort, wantPort), Facts: fct("port")})
				break
			}
			wantProto := map[string]uint8{"udp": codec.ProtoUDP, "tcp": codec.ProtoTCP, "icmp": codec.ProtoICMP}[c.Protocol]
			if c.Protocol == "icmp" && p.IP.Version == 6 {
				wantProto = codec.ProtoICMPv6
			}
			if p.IP.Proto != wantProto {
				vs = append(vs, Violation{Rule: "C19.wrong-method", Detail: fmt.Sprintf("%s: probe has IP protocol %d, requested %s", ep.Actor, p.IP.Proto, c.Protocol), Facts: fct("protocol")})
				break
			}
			if c.Protocol == "tcp" && ep.Role == "run" {
				syn := p.L4.Flags&codec.FlagSYN != 0
				if (c.Method == "sack" && syn) || ((c.Method == "syn" || c.Method == "") && !syn) {
					vs = append(vs, Violation{Rule: "C19.wrong-method", Detail: fmt.Sprintf("%s: method %q but probe flags %#x", ep.Actor, c.Method, p.L4.Flags), Facts: fct("method")})
					break
				}
			}
		}
		if !destSeen && len(v.Fold.DontCares) == 0 && len(ep.Probes) != maxT-minT+1 && v.Call.Err == nil {
			vs = append(vs, Violation{Rule: "C19.wrapped:ttl", Detail: fmt.Sprintf("%s: %d probes sent for requested range %d..%d and no destination reply", ep.Actor, len(ep.Probes), minT, maxT), Facts: fct("ttl")})
		}
		if minT == 255 || maxT == 255 {
			ri.probe("ttl-255-executed")
		}
	}
	return vs
}

// literalPort returns the port text of a target literal of the forms a.b.c.d:<port> and [v6]:<port>.
func literalPort(t string) (string, bool) {
	if strings.HasPrefix(t, "[") {
		if i := strings.Index(t, "]:"); i >= 0 {
			return t[i+2:], true
		}
		return "", false
	}
	if strings.Count(t, ":") == 1 {
		return t[strings.IndexByte(t, ':')+1:], true
	}
	return "", false
}

// expectedTarget parses the target literal the way the property describes it: an address, with an
// optional port; the separate port parameter applies when the literal has none, 33434 when 0.
func expectedTarget(c *sim.Call, resolvedPort int) (netip.Addr, int) {
	t := c.Target
	port := resolvedPort
	if port == 0 {
		port = 33434
	}
	// a port inside the literal is a decimal number (leading zeros and a sign do not change its value)
	if lit, has := literalPort(t); has {
		if n, err := strconv.Atoi(strings.TrimSpace(lit)); err == nil && n > 0 {
			port = n
		}
		if strings.HasPrefix(t, "[") {
			t = t[:strings.Index(t, "]:")+1]
		} else {
			t = t[:strings.IndexByte(t, ':')]
		}
	}
	t = strings.Trim(t, "[]")
	a, _ := netip.ParseAddr(t)
	return a.Unmap(), port
}

// ---------------------------------------------------------------------------------------------
// C17

type c17 struct{}

func init() { register(c17{}) }

func (c17) ID() string     { return "C17" }
func (c17) Level() string  { return "exploration" }
func (c17) QuickRuns() int { return 120000 }
func (c17) Rule() string {
	return "RunTraceroute and the HTTP handler with skip-private-hops over simulated topologies whose routers answer from every private block edge (10/8, 172.16/12, 192.168/16, fc00::/7 first/last addresses), the adjacent public addresses, and IPv4-mapped IPv6 sources (which only the real parser path can produce), in 30% of the requests towards a destination that is itself private (the destination-marked hop must be redacted too), with and without concurrent reverse-DNS enrichment (names, empty, errors, slow); the JSON output is compared hop by hop with the ledger: private responder => TTL only; public responder => address, reachability and names untouched; hop count unchanged; non-trivial = at least one private responder was read; distinct = distinct shapes. Modest claim: documents are those the real pipeline produces, not all documents"
}
func (c17) Assumptions() []string {
	return []string{"private = 10/8, 172.16/12, 192.168/16, fc00::/7, including IPv4-mapped forms (the property's list); link-local, CGNAT and loopback are not private"}
}

func isPrivateSpec(a netip.Addr) bool {
	a = a.Unmap()
	if a.Is4() {
		b := a.As4()
		return b[0] == 10 || (b[0] == 172 && b[1]&0xf0 == 16) || (b[0] == 192 && b[1] == 168)
	}
	b := a.As16()
	return b[0]&0xfe == 0xfc
}

func (c17) Gen(rng *rand.Rand, tier string, i int) *sim.Scenario {
	o := requestOpts{protocols: []string{"udp", "udp6", "icmp", "icmp6", "tcp-syn"}, queriesMin: 1, queriesMax: 3, e2eMax: 1, reverseDNS: 0.5, skipPrivate: 0.9, privateHops: true, silentProb: 0.15, privateTarget: 0.3}
	sc := genRequestScenario("C17", rng, o)
	if chance(rng, 0.35) {
		toHandler(rng, sc, &o)
	}
	if sc.Calls[0].ReverseDNS {
		seen := map[string]bool{}
		for _, f := range sc.Flows {
			for _, h := range f.Hops {
				if h.From == "" || seen[h.From] {
					continue
				}
				seen[h.From] = true
				a := mustParse(h.From)
				sc.DNS = append(sc.DNS, sim.DNSPlan{Addr: dnsKey(a), Script: []string{pick(rng, "names:1", "names:2", "names:1", "dupnames:2", "empty", dnsErr(rng), "slow:30000:1")}})
			}
		}
		t := mustParse(bareTarget(sc.Calls[0].Target))
		sc.DNS = append(sc.DNS, sim.DNSPlan{Addr: dnsKey(t), Script: []string{"names:1"}})
	}
	if crng := rand.New(rand.NewPCG(uint64(i), 17)); chance(crng, 0.12) {
		// the caller's context ends before, during or after the runs (a deadline shorter than the
		// request, a client that went away): if a document still comes back, it is redacted like any other
		c := &sc.Calls[0]
		span := c.TimeoutMs*1000 + 400000
		c.CancelAtUs = int64(pick(crng, 1, between(crng, 1, 3000), between(crng, 1, span), between(crng, 1, span)))
		c.PreCancelled = c.CancelAtUs == 1 && i%2 == 0
	}
	return sc
}

func mustParse(s string) netip.Addr {
	a, err := netip.ParseAddr(s)
	if err != nil {
		panic(err)
	}
	return a
}

// dnsKey is the textual form under which the resolver is asked for an address taken from a hop
// (net.IP.String(): IPv4-mapped addresses print as IPv4).
func dnsKey(a netip.Addr) string { return a.Unmap().String() }

type jsonHop struct {
	TTL        int      `json:"ttl"`
	IPAddress  *string  `json:"ip_address"`
	RTT        float64  `json:"rtt"`
	Reachable  bool     `json:"reachable"`
	ReverseDNS []string `json:"reverse_dns"`
}
type jsonRun struct {
	Source struct {
		Port int `json:"port"`
	} `json:"source"`
	Hops []jsonHop `json:"hops"`
}
type jsonDoc struct {
	Traceroute struct {
		Runs []jsonRun `json:"runs"`
	} `json:"traceroute"`
}

func (c17) Check(out *sim.Outcome, ri *RunInfo) []Violation {
	vs := crashViolations(out)
	cs := out.W.Calls[0]
	c := cs.C
	ri.Shape = shapeOf(out.Sc)
	var raw []byte
	switch {
	case c.Entry == "http_handler" && cs.HTTPStatus == 200:
		raw = cs.HTTPBody
	case cs.Results != nil:
		raw, _ = json.Marshal(cs.Results)
	default:
		return vs
	}
	var doc jsonDoc
	if err := json.Unmarshal(raw, &doc); err != nil {
		vs = append(vs, Violation{Rule: "C17.length", Detail: "output is not the published JSON document: " + err.Error()})
		return vs
	}
	fct := facts("entry", c.Entry, "protocol", c.Protocol, "skip", fmt.Sprint(c.SkipPrivate))
	cancelled := cs.CancelledAt > 0
	if cancelled {
		// a document handed to a caller who had cancelled is a document all the same
		ri.probe("document-after-cancellation")
	}
	// names the resolver returned, per address key
	resolved := map[string][][]string{}
	for _, d := range out.W.DNSCalls() {
		if d.Err == "" {
			resolved[d.Addr] = append(resolved[d.Addr], d.Names)
		}
	}
	type expHop struct {
		ttl     int
		addr    netip.Addr
		private bool
	}
	var eps [][]expHop
	for _, v := range views(out) {
		if v.Ep.Role != "run" {
			continue
		}
		if v.Fold.Ambiguous > 0 || (isSerial(v) && hasLateOrDup(v)) {
			ri.Inconclusive = "ambiguous-reference"
			return vs
		}
		var e []expHop
		for _, h := range v.Fold.Expected() {
			x := expHop{ttl: h.TTL, addr: h.Addr}
			if h.Addr.IsValid() && isPrivateSpec(h.Addr) {
				x.private = true
				ri.NonTrivial = true
				ri.probe("private-hop")
				if h.Dest {
					ri.probe("private-destination-hop")
				}
				if h.Addr.Is4In6() {
					ri.probe("private-hop-ipv4-mapped")
				}
			}
			e = append(e, x)
		}
		eps = append(eps, e)
	}
	if len(doc.Traceroute.Runs) != len(eps) {
		return vs // counts are C15's business
	}
	// match every run of the document to one endpoint's expectation; report the best mismatch if none fits
	compare := func(run jsonRun, e []expHop) string {
		if len(run.Hops) != len(e) {
			return fmt.Sprintf("length:%d hops in the output, %d expected", len(run.Hops), len(e))
		}
		for i, h := range run.Hops {
			x := e[i]
			if h.TTL != x.ttl {
				return fmt.Sprintf("length:position %d has ttl %d, expected %d", i, h.TTL, x.ttl)
			}
			redact := x.private && c.SkipPrivate
			has := h.IPAddress != nil && *h.IPAddress != ""
			switch {
			case redact:
				if has {
					return fmt.Sprintf("leak:ip_address:ttl %d still shows %s (responder %s is private)", h.TTL, *h.IPAddress, x.addr)
				}
				if h.RTT != 0 {
					return fmt.Sprintf("leak:rtt:ttl %d (private responder %s) keeps rtt %v", h.TTL, x.addr, h.RTT)
				}
				if h.Reachable {
					return fmt.Sprintf("leak:reachable:ttl %d (private responder %s) is still reachable", h.TTL, x.addr)
				}
				if len(h.ReverseDNS) > 0 {
					return fmt.Sprintf("leak:reverse_dns:ttl %d (private responder %s) keeps names %v", h.TTL, x.addr, h.ReverseDNS)
				}
			case !x.addr.IsValid():
				if has || h.Reachable || h.RTT != 0 {
					return fmt.Sprintf("public-altered:unanswered ttl %d shows %v", h.TTL, h)
				}
			default:
				if !has {
					return fmt.Sprintf("public-altered:ttl %d answered by %s (not to be redacted) has no address", h.TTL, x.addr)
				}
				got, err := netip.ParseAddr(*h.IPAddress)
				if err != nil || got.Unmap() != x.addr.Unmap() {
					return fmt.Sprintf("public-altered:ttl %d shows %s, responder was %s", h.TTL, *h.IPAddress, x.addr)
				}
				if !h.Reachable {
					return fmt.Sprintf("public-altered:ttl %d answered by %s is not marked reachable", h.TTL, x.addr)
				}
				if c.ReverseDNS {
					okNames := len(h.ReverseDNS) == 0 && len(resolved[dnsKey(x.addr)]) == 0
					for _, names := range resolved[dnsKey(x.addr)] {
						if fmt.Sprint(names) == fmt.Sprint(h.ReverseDNS) || (len(names) == 0 && len(h.ReverseDNS) == 0) {
							okNames = true
						}
					}
					if cancelled && len(h.ReverseDNS) == 0 {
						okNames = true // the caller left: what enrichment still did is C18's and C08's business
					}
					if !okNames {
						return fmt.Sprintf("public-altered:ttl %d (%s) carries names %v, resolver returned %v for that address", h.TTL, x.addr, h.ReverseDNS, resolved[dnsKey(x.addr)])
					}
				} else if len(h.ReverseDNS) > 0 {
					return fmt.Sprintf("public-altered:ttl %d carries names %v although reverse DNS is off", h.TTL, h.ReverseDNS)
				}
			}
		}
		return ""
	}
	usedEp := make([]bool, len(eps))
	matchOf := make([]int, len(eps))
	for i := range matchOf {
		matchOf[i] = -1
	}
	var try func(ri int, seen []bool) bool
	try = func(r int, seen []bool) bool {
		for j := range eps {
			if seen[j] || compare(doc.Traceroute.Runs[r], eps[j]) != "" {
				continue
			}
			seen[j] = true
			if matchOf[j] < 0 || try(matchOf[j], seen) {
				matchOf[j] = r
				return true
			}
		}
		return false
	}
	_ = usedEp
	for r := range doc.Traceroute.Runs {
		if try(r, make([]bool, len(eps))) {
			continue
		}
		// report the closest expectation (fewest leading matching hops lost)
		// report the most specific mismatch among the candidate endpoints: a leak beats an altered
		// public hop beats a length difference
		best := ""
		rank := func(d string) int {
			switch {
			case strings.HasPrefix(d, "leak:"):
				return 0
			case strings.HasPrefix(d, "public-altered:"):
				return 1
			}
			return 2
		}
		for j := range eps {
			if d := compare(doc.Traceroute.Runs[r], eps[j]); best == "" || rank(d) < rank(best) {
				best = d
			}
		}
		kind, detail := best, best
		if k := strings.SplitN(best, ":", 3); len(k) == 3 && k[0] == "leak" {
			kind, detail = "leak:"+k[1], k[2]
		} else if k := strings.SplitN(best, ":", 2); len(k) == 2 {
			kind, detail = k[0], k[1]
		}
		vs = append(vs, Violation{Rule: "C17." + kind, Detail: fmt.Sprintf("run %d of the output matches no endpoint's expectation: %s", r, detail), Facts: fct})
		break
	}
	return vs
}

var _ = oracle.Genuine

package props

import (
	"fmt"
	"math/rand/v2"

	"verifharness/sim"
)

// wireOpts tunes the shared generator of protocol-level runs over the simulated wire.
type wireOpts struct {
	variants     []Variant
	bigTTL       float64 // probability of a wide / high TTL range
	catalogue    bool    // draw router/destination reply forms from the whole catalogue
	silentProb   float64
	dupProb      float64 // duplicate genuine replies
	lossProb     float64 // probe or reply loss
	lateProb     float64 // replies delayed beyond the listening window
	wellTimed    bool    // serial engine: every reply inside its own probe's window, one reply per probe
	adversarial  int     // max perturbed look-alikes per probed TTL
	destForms    bool    // destination-form replies from non-target hosts, errors from the target itself
	garbage      int     // max garbage packets per probed TTL
	noise        int     // max unrelated packets per run
	flood        bool
	captureOut   float64
	wrapBases    bool
	senderStall  float64
	prodTimeouts bool    // production-scale timeouts (3 s) and delays
	overtake     bool    // non-monotone delays so replies overtake each other
	noDest       float64 // probability that the destination is never reached
	natInRelaxed bool
}

type wireRun struct {
	call sim.Call
	flow sim.Flow
	lis  *sim.Listener
	v    Variant
	dest int // destination distance (0: unreachable)
	// shared: this SACK run connects to the listener of another run (same target address and port)
	shared *wireRun
}

var routerForms = []string{"te28", "teFull", "te4884", "teOpt", "teRewr"}

func destForms(v Variant, rng *rand.Rand, catalogue bool) string {
	switch v.Entry {
	case "icmp":
		return "echo"
	case "udp":
		if !catalogue {
			return "unreach:3"
		}
		if v.V6 {
			return pick(rng, "unreach:4", "unreach:1", "unreachFull:4", "unreach:0", fmt.Sprintf("unreach:%d", rng.IntN(8)), "unreach:4:rw")
		}
		return pick(rng, "unreach:3", "unreach:13", "unreachFull:3", "unreach:2", "unreach:10", fmt.Sprintf("unreach:%d", rng.IntN(16)), "unreach:3:rw")
	case "tcp":
		if !catalogue {
			return pick(rng, "synack", "rstack")
		}
		f := pick(rng, "synack", "rst", "rstack")
		if chance(rng, 0.2) {
			f += fmt.Sprintf(":%d", pick(rng, 0x40, 0xc0, 0x08, 0x20, 0x80, 0xe8))
		}
		return f
	case "sack":
		return "sack"
	}
	panic("variant")
}

func perturbsFor(v Variant) (quote []string, direct []string) {
	switch v.Entry {
	case "icmp":
		return []string{"qdst", "qsrc", "id", "seqHi", "bump", "foreign", "qtype"}, []string{"id", "seqHi", "bump"}
	case "udp":
		q := []string{"qdst", "qdport", "ipidHi", "ipidSwap", "bump", "foreign"}
		if v.V6 {
			q = []string{"qdst", "qdport", "v6len", "bump", "foreign"}
		}
		if !v.Loosen {
			q = append(q, "qsrc", "qsport")
		}
		return q, nil
	case "tcp":
		q := []string{"qdst", "qdport", "ipidHi", "ipidSwap", "qseq", "bump", "foreign"}
		if !v.Loosen {
			q = append(q, "qsrc", "qsport")
		}
		return q, []string{"sport", "dport", "ack", "ack"}
	case "sack":
		q := []string{"qdst", "qdport", "qseq", "bump", "foreign"}
		if !v.Loosen {
			q = append(q, "qsrc", "qsport")
		}
		return q, []string{"sport", "dport", "sackEdge", "sackBelow", "sackStray"}
	}
	return nil, nil
}

// genWireRun draws one protocol-level run (call + network behaviour) for flow index fi.
func genWireRun(rng *rand.Rand, o *wireOpts, fi int, actor string) *wireRun {
	v := pick(rng, o.variants...)
	wr := &wireRun{v: v}
	c := &wr.call
	c.Entry = v.Entry
	c.Target = v.target(fi)
	if v.V6 && chance(rng, 0.12) {
		// genuine IPv6 addresses whose bytes look like something else at a glance: ffff in the sixth
		// group (not IPv4-mapped: the first 80 bits are not zero), an embedded IPv4 tail, all-ones groups
		c.Target = pick(rng, "2001:db8:abcd:12:0:ffff:a00:fffe", "2001:db8::ffff:c633:644d", "2001:db8:77:0:ffff:ffff:ffff:ffff", "64:ff9b::c633:644d", "2001:db8:0:1::ffff:0:1")
	}
	c.Paris, c.Loosen = v.Paris, v.Loosen
	if v.Entry != "icmp" {
		c.Port = pick(rng, 33434, 443, 80, 1, 65535, 8080, between(rng, 1, 65535), between(rng, 1, 65535))
	}
	// TTL range
	switch {
	case chance(rng, o.bigTTL):
		switch rng.IntN(4) {
		case 0:
			c.MinTTL, c.MaxTTL = 1, 255
		case 1:
			c.MinTTL = between(rng, 200, 255)
			c.MaxTTL = between(rng, c.MinTTL, 255)
		case 2:
			c.MinTTL, c.MaxTTL = 255, 255
		default:
			c.MinTTL = between(rng, 1, 40)
			c.MaxTTL = c.MinTTL + between(rng, 20, 120)
		}
	default:
		c.MinTTL = 1
		if chance(rng, 0.3) {
			c.MinTTL = between(rng, 2, 6)
		}
		c.MaxTTL = c.MinTTL + between(rng, 0, 7)
	}
	if c.MaxTTL > 255 {
		c.MaxTTL = 255
	}
	n := c.MaxTTL - c.MinTTL + 1
	// timing
	c.TimeoutMs = pick(rng, 150, 300, 500, 1000, 3000, between(rng, 120, 3000))
	c.DelayMs = pick(rng, 0, 1, 5, 10, 50, between(rng, 0, 80))
	if o.prodTimeouts {
		c.TimeoutMs = pick(rng, 1000, 3000, 3000)
		c.DelayMs = pick(rng, 0, 10, 50, 150, 350)
	}
	c.PollMs = 100
	if v.Entry == "icmp" || v.Entry == "sack" {
		c.PollMs = pick(rng, 10, 50, 100, 100)
	}
	if v.Entry == "tcp" && c.TimeoutMs < 300 {
		c.TimeoutMs = 300
	}
	if n > 40 && c.DelayMs > 5 {
		c.DelayMs = 5
	}
	if v.Entry == "sack" {
		c.HandshakeTimeoutMs = pick(rng, 1000, 2000, 3000)
		c.FinTimeoutMs = pick(rng, 100, 500)
	}
	// destination distance
	switch {
	case chance(rng, o.noDest):
		wr.dest = 0
	case chance(rng, 0.15):
		wr.dest = c.MaxTTL + between(rng, 1, 3)
		if wr.dest > 255 {
			wr.dest = 0
		}
	default:
		wr.dest = between(rng, c.MinTTL, c.MaxTTL)
		if chance(rng, 0.15) && c.MinTTL > 1 {
			wr.dest = between(rng, 1, c.MinTTL) // destination nearer than the first TTL
		}
	}
	if v.Entry == "sack" {
		wr.lis = &sim.Listener{Addr: c.Target, Port: c.Port, Permitted: true, Timestamps: chance(rng, 0.5), ISN: pick(rng, rng.Uint32(), 0, 1, 0xffffff00+uint32(rng.IntN(256)), 0xffffffff, 0x7fffffff, -uint32(between(rng, 1, 8)), -uint32(between(rng, 1, 8))), ServerSeq: rng.Uint32(), OptLayout: pick(rng, "", "", "bsd", "win", "tsfirst", "sacklast")}
		if grng := rand.New(rand.NewPCG(uint64(c.Port)*7919+uint64(c.MaxTTL), uint64(wr.lis.ISN))); chance(grng, 0.15) {
			// a target that sent a banner of its own before the capture filter followed the connection:
			// its later segments carry an advanced sequence number
			wr.lis.GreetingLen = between(grng, 1, 80)
		}
		if !o.wrapBases && chance(rng, 0.5) {
			wr.lis.ISN = rng.Uint32()
		}
	}
	wr.flow = genFlow(rng, o, v, c, fi, actor, wr.dest)
	return wr
}

// genFlow draws the network behaviour for every TTL of one endpoint's run.
func genFlow(rng *rand.Rand, o *wireOpts, v Variant, c *sim.Call, fi int, actor string, dest int) sim.Flow {
	n := c.MaxTTL - c.MinTTL + 1
	serial := v.Entry == "tcp"
	windowUs := int64(c.TimeoutMs) * 1000
	// per-hop behaviour
	f := &sim.Flow{Actor: actor}
	adv := 0
	for t := c.MinTTL; t <= c.MaxTTL; t++ {
		hp := sim.HopPlan{TTL: t}
		atDest := dest > 0 && t >= dest
		if atDest {
			hp.From = c.Target
		} else {
			hp.From = routerAddr(v.V6, fi, t)
			if v.V6 && chance(rng, 0.06) {
				hp.From = fmt.Sprintf("2001:db8:%x:%x:0:ffff:a00:%x", 0x100+fi, t, 1+t)
			}
		}
		if chance(rng, o.lossProb) && !serial {
			f.ProbeLoss = append(f.ProbeLoss, t)
		}
		// genuine replies
		maxDelay := windowUs - int64(c.PollMs)*1000 - 1000
		if !serial {
			maxDelay += int64(n-(t-c.MinTTL)) * int64(c.DelayMs) * 1000 / 2
		}
		if maxDelay < 2000 {
			maxDelay = 2000
		}
		delay := int64(between(rng, 50, int(min64(maxDelay, 400000))))
		if o.overtake || chance(rng, 0.3) {
			delay = int64(between(rng, 50, int(maxDelay)))
		}
		silent := chance(rng, o.silentProb) && !atDest
		if atDest && chance(rng, o.silentProb/3) {
			silent = true
		}
		if !silent {
			form := "te28"
			if o.catalogue {
				form = pick(rng, routerForms...)
			} else if chance(rng, 0.3) {
				form = pick(rng, routerForms...)
			}
			if o.natInRelaxed && v.Loosen && chance(rng, 0.3) {
				form = "teNat"
			}
			if atDest {
				form = destForms(v, rng, o.catalogue)
				if o.destForms && (v.Entry == "udp" || v.Entry == "sack" || v.Entry == "icmp" || v.Entry == "tcp") && chance(rng, 0.15) {
					form = "te28" // the target itself reports time-exceeded
				}
				if o.destForms && v.Entry != "udp" && chance(rng, 0.12) {
					// the target (a host firewall that REJECTs) answers with destination unreachable quoting
					// the probe: not a proof of arrival for ICMP echo, TCP SYN or SACK probing
					if v.V6 {
						form = pick(rng, "unreach:4", "unreach:1")
					} else {
						form = pick(rng, "unreach:3", "unreach:13", "unreach:10", "unreach:1")
					}
				}
			}
			r := sim.Reply{Form: form, DelayUs: delay, K: rng.IntN(24)}
			if chance(rng, 0.5) {
				r.Var = rng.Uint32() | 1
			}
			if o.catalogue && atDest && (v.Entry == "tcp" || v.Entry == "sack") && chance(rng, 0.2) {
				r.OuterOpts = true // the destination's own reply under an IPv4 header with options
			}
			if chance(rng, o.lateProb) {
				r.DelayUs = windowUs + int64(between(rng, 1000, 500000))
				if !serial {
					r.DelayUs += int64(n) * int64(c.DelayMs) * 1000
				}
			}
			if chance(rng, o.dupProb) && !(serial && o.wellTimed) {
				r.Dup = between(rng, 1, 2)
				r.DupGapUs = int64(between(rng, 1, 300000))
			}
			if chance(rng, o.lossProb) {
				// the reply is lost: nothing is emitted for it
			} else {
				hp.Replies = append(hp.Replies, r)
			}
			if atDest && !serial && chance(rng, 0.08) {
				// a path change under the probe: a router one hop short of the target reports time-exceeded
				// for this TTL and the target answers it as well (either may come first)
				hp.Replies = append(hp.Replies, sim.Reply{Form: "te28", From: routerAddr(v.V6, fi, t), DelayUs: int64(between(rng, 50, int(max64(delay*2, 100)))), K: rng.IntN(4)})
			}
		}
		// look-alikes: delivered before the genuine reply (or for a TTL that stays silent)
		if o.adversarial > 0 {
			q, d := perturbsFor(v)
			for k := between(rng, 0, o.adversarial); k > 0; k-- {
				var r sim.Reply
				useDirect := len(d) > 0 && chance(rng, 0.35)
				if v.Entry == "icmp" && chance(rng, 0.35) {
					useDirect = true
				}
				if useDirect {
					r.Form = destForms(v, rng, true)
					if v.Entry == "udp" {
						useDirect = false
					} else {
						r.Perturb = pick(rng, d...)
						r.From = c.Target
					}
				}
				if !useDirect {
					r.Form = pick(rng, routerForms...)
					if v.Entry == "udp" && chance(rng, 0.3) {
						r.Form = destForms(v, rng, true)
					}
					r.Perturb = pick(rng, q...)
					r.From = attackerAddr(v.V6, adv)
					if chance(rng, 0.25) {
						// the look-alike error comes from the target's own address (a host behind port
						// forwarding, a middlebox answering in its name): who sends it does not make a quote of
						// another flow a quote of this one
						r.From = bareTarget(c.Target)
					}
				}
				adv++
				r.K = between(rng, 1, 9)
				if r.Perturb == "bump" {
					r.K = pick(rng, 1, 2, 3, -1, 7, 30)
				}
				if r.Perturb == "qseq" {
					r.K = pick(rng, 1, -1, 256, 65536, 1000)
				}
				r.DelayUs = int64(between(rng, 10, int(max64(delay-10, 20))))
				hp.Replies = append(hp.Replies, r)
			}
		}
		if o.adversarial > 0 && !v.V6 && chance(rng, 0.12) {
			// the same identifiers in the other address family (IPv4-mapped addresses in an ICMPv6 error)
			hp.Replies = append(hp.Replies, sim.Reply{Form: "teXfam", From: attackerAddr(true, adv), K: rng.IntN(4), DelayUs: int64(between(rng, 10, int(max64(delay-10, 20))))})
			adv++
		}
		if o.destForms && chance(rng, 0.5) {
			// a destination-form reply carrying the right identifiers, from a host that is not the target
			r := sim.Reply{Form: destForms(v, rng, true), From: attackerAddr(v.V6, 1000+adv), DelayUs: int64(between(rng, 10, int(max64(delay-10, 20))))}
			adv++
			hp.Replies = append(hp.Replies, r)
		}
		if o.garbage > 0 {
			for k := between(rng, 0, o.garbage); k > 0; k-- {
				hp.Replies = append(hp.Replies, genGarbage(rng, v, c, hp.From, atDest, delay, adv))
				adv++
			}
		}
		f.Hops = append(f.Hops, hp)
	}
	if v.Entry == "sack" {
		// forward-path reordering: the target sees the probes in the order their answers are due
		f.TargetByArrival = chance(rng, 0.5)
	}
	return *f
}

// genGarbage draws one damaged packet: either a foreign-flow reply (which no small mutation can
// make genuine) damaged arbitrarily and delivered at any time, or a copy of the genuine reply
// damaged and delivered after the genuine copy.
func genGarbage(rng *rand.Rand, v Variant, c *sim.Call, from string, atDest bool, genuineDelay int64, n int) sim.Reply {
	r := sim.Reply{}
	if atDest {
		r.Form = destForms(v, rng, true)
	} else {
		r.Form = pick(rng, routerForms...)
	}
	foreign := chance(rng, 0.6)
	if foreign {
		r.Form = pick(rng, routerForms...)
		r.Perturb = "foreign"
		r.From = attackerAddr(v.V6, n)
		r.DelayUs = int64(between(rng, 10, 300000))
	} else {
		r.From = from
		r.DelayUs = genuineDelay + int64(between(rng, 1, 5000))
	}
	switch rng.IntN(6) {
	case 0, 1:
		r.Garbage = fmt.Sprintf("trunc:%d", between(rng, 0, 90))
	case 2:
		r.Garbage = fmt.Sprintf("cut:%d", between(rng, 1, 40))
	case 3:
		// structural fields: version/IHL, total length, protocol, inner version/IHL, lengths
		off := pick(rng, 0, 2, 3, 9, 20, 21, 22, 23, 28, 29, 30, 31, 32, 33, 37, 40, 44, 45, 46, 48, 52, 60)
		r.Garbage = fmt.Sprintf("flip:%d:%d", off, 1<<rng.IntN(8))
	case 4:
		off := between(rng, 0, 80)
		r.Garbage = fmt.Sprintf("set:%d:%d", off, pick(rng, 0, 0xff, 0x0f, 0xf0, 0x45, 0x60, 0x4f, 0x40))
	default:
		r.Garbage = fmt.Sprintf("append:%d", pick(rng, 1, 7, 500, 1200, 2000))
	}
	if v.Entry == "sack" && atDest && !foreign && chance(rng, 0.35) {
		// malformed below the level byte damage reaches: a well-delimited SACK option whose data is
		// not a whole number of blocks
		r.Garbage, r.Perturb, r.K = "", "sackStray", between(rng, 1, 7)
	}
	return r
}

func min64(a, b int64) int64 {
	if a < b {
		return a
	}
	return b
}
func max64(a, b int64) int64 {
	if a > b {
		return a
	}
	return b
}

// genNoise draws unrelated traffic for a run lasting roughly spanUs.
func genNoise(rng *rand.Rand, maxN int, spanUs int64, flood bool) []sim.Noise {
	var out []sim.Noise
	for k := between(rng, 0, maxN); k > 0; k-- {
		kind := pick(rng, "tcpother", "udpother", "icmpother", "sctp", "v6frag", "rand", "randv4", "randv6", "badicmp")
		switch kind {
		case "rand", "randv4", "randv6":
			kind = fmt.Sprintf("%s:%d", kind, pick(rng, 0, 1, 3, 19, 20, 21, 39, 40, 41, 60, 200, 1023, 1024, 1025, 2048))
		}
		out = append(out, sim.Noise{AtUs: int64(between(rng, 0, int(spanUs))), Kind: kind, Seed: rng.Uint32()})
	}
	if flood {
		out = append(out, sim.Noise{AtUs: int64(between(rng, 0, 5000)), Kind: pick(rng, "icmpother", "tcpother", "randv4:64", "badicmp:0", "badicmp:1"), Seed: rng.Uint32(),
			EveryUs: int64(pick(rng, 500, 2000, 9000, 30000)), UntilUs: spanUs * 3})
	}
	return out
}

// scenarioFor assembles a scenario from protocol-level runs (calls index == flow index).
func scenarioFor(prop string, rng *rand.Rand, runs []*wireRun) *sim.Scenario {
	sc := &sim.Scenario{Property: prop}
	for _, r := range runs {
		if r.lis != nil {
			sc.Listeners = append(sc.Listeners, *r.lis)
			r.call.Listener = len(sc.Listeners)
		} else if r.shared != nil {
			r.call.Listener = r.shared.call.Listener
		}
		sc.Calls = append(sc.Calls, r.call)
		sc.Flows = append(sc.Flows, r.flow)
	}
	sc.Knobs.RandSeed = int64(rng.Uint32())
	sc.Tape = tape(rng, 48)
	return sc
}

func applyWrapBases(rng *rand.Rand, sc *sim.Scenario) {
	sc.Knobs.SetPacketIDBase = true
	sc.Knobs.PacketIDBase = uint32(pick(rng, 65535, 65534, 65530, 65500, 65281, 0, 1, rng.IntN(65536)))
	sc.Knobs.SetEchoIDBase = true
	sc.Knobs.EchoIDBase = pick(rng, uint32(65534), 65535, 0, 0xffffffff, 0xfffffffe, uint32(rng.IntN(65536)), 255, 256)
	// TCP SYN sequence numbers at and around the 32-bit wrap (seq+1 = 0), the sign change and anywhere
	sc.Knobs.SetTCPSeq = true
	sc.Knobs.TCPSeqBase = pick(rng, uint32(0xffffffff), 0xffffffff, 0xfffffffe, 0, 1, 0x7fffffff, 0x80000000, rng.Uint32(), rng.Uint32())
}

func shapeOf(sc *sim.Scenario) string {
	s := ""
	for i := range sc.Calls {
		c := &sc.Calls[i]
		s += fmt.Sprintf("%s/%s/%v%v/%d-%d/t%d/d%d;", c.Entry, c.Protocol+c.Method, c.Paris, c.Loosen, c.MinTTL, c.MaxTTL, c.TimeoutMs, c.DelayMs)
	}
	for i := range sc.Flows {
		for _, h := range sc.Flows[i].Hops {
			s += fmt.Sprintf("%d:", h.TTL)
			for _, r := range h.Replies {
				s += r.Form + "/" + r.Perturb + "/" + r.Garbage + fmt.Sprint(r.OuterOpts)[:1] + ","
			}
		}
	}
	return s
}

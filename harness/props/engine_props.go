package props

import (
	"fmt"
	"math/rand/v2"
	"net/netip"
	"time"

	"verifharness/sim"

	"github.com/DataDog/datadog-traceroute/common"
)

type engineOpts struct {
	serial    bool
	multiDest bool
	late      bool
	bigTTL    float64
	retryable bool
	sendStall bool
	// outOfRange: chance that the driver also hands out a response whose TTL lies outside the
	// requested range (a driver bug or stale state): the run may fail or ignore it, the shape of a
	// successful result must not suffer
	outOfRange float64
}

func genEngineScenario(prop string, rng *rand.Rand, o engineOpts) *sim.Scenario {
	c := sim.Call{Entry: "engine_parallel"}
	if o.serial {
		c.Entry = "engine_serial"
	}
	c.MinTTL = pick(rng, 1, 1, 1, 2, 3)
	n := pick(rng, 1, 2, 2, 3, 3, 4, 5)
	if chance(rng, o.bigTTL) {
		c.MinTTL = between(rng, 1, 250)
		n = between(rng, 1, 256-c.MinTTL)
		if n > 40 {
			n = 40 + rng.IntN(3)
		}
	}
	c.MaxTTL = c.MinTTL + n - 1
	if c.MaxTTL > 255 {
		c.MaxTTL = 255
	}
	c.TimeoutMs = pick(rng, 20, 50, 100, 300)
	c.DelayMs = pick(rng, 0, 0, 1, 5, 20)
	c.PollMs = pick(rng, 5, 10, 50)
	s := &sim.EngineScript{}
	destFrom := 0
	if chance(rng, 0.7) {
		destFrom = between(rng, c.MinTTL, c.MaxTTL)
	}
	k := 0
	for t := c.MinTTL; t <= c.MaxTTL; t++ {
		for r := pick(rng, 0, 1, 1, 1, 2, 3); r > 0; r-- {
			k++
			resp := sim.ScriptResp{TTL: t, Addr: fmt.Sprintf("10.%d.%d.%d", t, k/250, 1+k%250), AfterSend: t, RTTUs: int64(between(rng, 1, 90000))}
			if destFrom > 0 && t >= destFrom && (o.multiDest || t == destFrom) && chance(rng, 0.7) {
				resp.Dest = true
			}
			if chance(rng, 0.5) {
				resp.DelayUs = int64(between(rng, 0, c.TimeoutMs*1000))
			}
			if o.late && chance(rng, 0.15) {
				resp.DelayUs = int64(c.TimeoutMs*1000 + between(rng, 0, 50000))
			}
			s.Responses = append(s.Responses, resp)
		}
	}
	if chance(rng, o.outOfRange) {
		for n := between(rng, 1, 2); n > 0; n-- {
			k++
			t := pick(rng, c.MinTTL-1, c.MinTTL-1, c.MinTTL-2, c.MaxTTL+1, 0)
			if t < 0 || t > 255 {
				continue
			}
			s.Responses = append(s.Responses, sim.ScriptResp{TTL: t, Addr: fmt.Sprintf("10.250.%d.%d", k/250, 1+k%250), Dest: chance(rng, 0.6), AfterSend: 0,
				RTTUs: int64(between(rng, 1, 90000)), DelayUs: int64(between(rng, 0, c.TimeoutMs*500))})
		}
	}
	if o.retryable && chance(rng, 0.3) {
		s.RetryableEvery = between(rng, 2, 5)
	}
	if o.sendStall && chance(rng, 0.15) {
		s.SendStallTTL = between(rng, c.MinTTL, c.MaxTTL)
		s.SendStallUs = int64(between(rng, 100, c.TimeoutMs*400))
	}
	c.Script = s
	sc := &sim.Scenario{Property: prop, Calls: []sim.Call{c}, Tape: tape(rng, 64)}
	return sc
}

// handedFold is the reference fold over the responses the scripted driver handed out.
func handedFold(cs *sim.CallState) (map[int]*sim.ScriptResp, int) {
	hops := map[int]*sim.ScriptResp{}
	lowest := 0
	for _, h := range cs.Driver.Handed {
		r := &cs.C.Script.Responses[h.Resp]
		if r.TTL < cs.C.MinTTL || r.TTL > cs.C.MaxTTL {
			continue // outside the requested range: never part of a result
		}
		prev := hops[r.TTL]
		if prev == nil || (!prev.Dest && r.Dest) {
			hops[r.TTL] = r
		}
		if r.Dest && (lowest == 0 || r.TTL < lowest) {
			lowest = r.TTL
		}
	}
	return hops, lowest
}

func engineShapeCheck(out *sim.Outcome, ri *RunInfo) []Violation {
	var vs []Violation
	for _, cs := range out.W.Calls {
		if cs.Driver == nil || cs.Err != nil {
			continue
		}
		ri.NonTrivial = true
		_, lowest := handedFold(cs)
		var hl []hopLite
		for i, p := range cs.Resp {
			h := hopLite{TTL: cs.C.MinTTL + i}
			if p != nil {
				h = hopLite{TTL: int(p.TTL), HasAddr: true, Dest: p.IsDest, RTT: float64(p.RTT)}
			}
			hl = append(hl, h)
		}
		actor := fmt.Sprintf("c%d(%s)", cs.Idx, cs.C.Entry)
		vs = append(vs, shapeViolations(actor, cs.C.Entry, cs.C.MinTTL, cs.C.MaxTTL, hl, lowest, true)...)
		if cs.HopsErr != nil {
			vs = append(vs, Violation{Rule: "C03.shape:gap", Detail: actor + ": ToHops rejected the engine's own result: " + cs.HopsErr.Error(), Facts: facts("variant", cs.C.Entry)})
			continue
		}
		var hl2 []hopLite
		for _, h := range cs.Hops {
			hl2 = append(hl2, hopLite{TTL: h.TTL, HasAddr: len(h.IPAddress) > 0, Dest: h.IsDest, RTT: h.RTT})
		}
		vs = append(vs, shapeViolations(actor+"/ToHops", cs.C.Entry, cs.C.MinTTL, cs.C.MaxTTL, hl2, lowest, true)...)
		if lowest > 0 {
			ri.probe("dest-handed-out")
		}
	}
	return vs
}

// ---------------------------------------------------------------------------------------------
// C07

type c07 struct{}

func init() { register(c07{}) }

func (c07) ID() string     { return "C07" }
func (c07) Level() string  { return "exploration" }
func (c07) QuickRuns() int { return 600000 }
func (c07) Rule() string {
	return "common.TracerouteParallel driven by a scripted driver whose SendProbe and ReceiveProbe park at the seeded scheduler: per TTL 0-3 scripted responses (some destination, several destination TTLs, duplicates, late ones, retryable errors, poll time-outs, in 15% of the runs one SendProbe that returns late while its responses are already being handed out), send delay 0..20 ms (0 = every send races every receive); the scheduler's choice tape decides the interleaving of sends and hand-outs; the returned list must equal the reference fold (first wins, destination overrides, clip at lowest destination TTL) over the exact hand-out sequence; non-trivial = at least two responses were handed out; distinct = distinct interleavings (hash of the release sequence). Seeded search, not enumeration"
}
func (c07) Assumptions() []string {
	return []string{"a response becomes eligible once the probe it answers has been handed to the driver (plus its scripted delay)"}
}

func (c07) Gen(rng *rand.Rand, tier string, i int) *sim.Scenario {
	return genEngineScenario("C07", rng, engineOpts{multiDest: true, late: true, bigTTL: 0.03, retryable: true, sendStall: true})
}

func (c07) Check(out *sim.Outcome, ri *RunInfo) []Violation {
	vs := crashViolations(out)
	ri.Shape = fmt.Sprintf("%x", out.SchedHash)
	for _, cs := range out.W.Calls {
		if cs.Driver == nil {
			continue
		}
		c := cs.C
		if len(cs.Driver.Handed) >= 2 {
			ri.NonTrivial = true
		}
		if cs.Err != nil {
			vs = append(vs, Violation{Rule: "C07.fold-mismatch", Detail: fmt.Sprintf("fault-free scripted run failed: %v", cs.Err)})
			continue
		}
		hops, lowest := handedFold(cs)
		last := c.MaxTTL
		if lowest > 0 {
			last = lowest
			ri.probe("dest-handed-out")
		}
		want := last - c.MinTTL + 1
		if len(cs.Resp) != want {
			vs = append(vs, Violation{Rule: "C07.fold-mismatch", Detail: fmt.Sprintf("result has %d entries, reference fold over %d hand-outs has %d (ttl %d..%d)", len(cs.Resp), len(cs.Driver.Handed), want, c.MinTTL, last)})
			continue
		}
		for i, got := range cs.Resp {
			t := c.MinTTL + i
			exp := hops[t]
			switch {
			case exp == nil && got == nil:
			case exp == nil:
				vs = append(vs, Violation{Rule: "C07.fold-mismatch", Detail: fmt.Sprintf("ttl %d: nothing was handed out, result has %s", t, got.IP)})
			case got == nil:
				vs = append(vs, Violation{Rule: "C07.fold-mismatch", Detail: fmt.Sprintf("ttl %d: %s was handed out before the call returned but is missing from the result", t, exp.Addr)})
			default:
				if got.IP != netip.MustParseAddr(exp.Addr) || got.IsDest != exp.Dest || int(got.TTL) != t || got.RTT.Microseconds() != exp.RTTUs {
					vs = append(vs, Violation{Rule: "C07.fold-mismatch", Detail: fmt.Sprintf("ttl %d: reference keeps %s dest=%v rtt=%dus, result has %s dest=%v rtt=%v (ttl field %d)", t, exp.Addr, exp.Dest, exp.RTTUs, got.IP, got.IsDest, got.RTT, got.TTL)})
				}
			}
		}
		// the receiver keeps polling until the deadline: every response that became eligible at least
		// one poll interval before it must have been handed out ("every reply ... before the
		// deadline is reflected"), also after a destination response
		if c.Script.SendStallUs > 0 {
			ri.probe("send-returns-late")
		}
		if len(cs.Driver.Sends) > 0 && c.Script.RetryableEvery == 0 && c.Script.SendStallUs == 0 {
			deadline := cs.Driver.Sends[0].CallAt + ms(c.TimeoutMs) + time.Duration(c.MaxTTL-c.MinTTL+1)*ms(c.DelayMs)
			handed := map[int]bool{}
			for _, h := range cs.Driver.Handed {
				handed[h.Resp] = true
			}
			// ... unless it could no longer change the result: once the returned path ends with the
			// destination at TTL d, a response for d or above cannot (the path ends at d, and a
			// destination entry is never replaced)
			destTTL := 0
			if n := len(cs.Resp); n > 0 && cs.Resp[n-1] != nil && cs.Resp[n-1].IsDest {
				destTTL = int(cs.Resp[n-1].TTL)
			}
			for ri, r := range c.Script.Responses {
				if handed[ri] {
					continue
				}
				if destTTL > 0 && r.TTL >= destTTL {
					continue
				}
				var sent *sim.DrvSend
				for _, sd := range cs.Driver.Sends {
					if sd.TTL == r.AfterSend {
						sent = sd
					}
				}
				if sent == nil {
					continue
				}
				el := sent.RelAt + time.Duration(r.DelayUs)*time.Microsecond
				if el <= deadline-ms(c.PollMs)-time.Millisecond {
					vs = append(vs, Violation{Rule: "C07.missed-handout", Detail: fmt.Sprintf("response %d (ttl %d, %s) was available from %v, more than a poll interval before the deadline %v, but ReceiveProbe was never called again to fetch it (%d hand-outs)", ri, r.TTL, r.Addr, el, deadline, len(cs.Driver.Handed))})
					break
				}
				ri0 := ri
				_ = ri0
			}
		}
		// sender stops after the destination was handed out (one in flight excepted)
		for _, h := range cs.Driver.Handed {
			if !c.Script.Responses[h.Resp].Dest {
				continue
			}
			allowed := h.SendsReleased
			if h.SendParked {
				allowed++
				ri.probe("send-in-flight-at-dest")
			}
			if len(cs.Driver.Sends) > allowed {
				vs = append(vs, Violation{Rule: "C07.after-dest", Detail: fmt.Sprintf("%d probes sent although the destination response was handed out when %d had been sent (in flight: %v)", len(cs.Driver.Sends), h.SendsReleased, h.SendParked)})
			} else if len(cs.Driver.Sends) < c.MaxTTL-c.MinTTL+1 {
				ri.probe("sender-stopped-early")
			}
			break
		}
		if cs.Driver.Retryables > 0 {
			ri.probe("retryable-error")
		}
		if cs.Driver.Timeouts > 0 {
			ri.probe("poll-timeout")
		}
		dupSeen := map[int]int{}
		for _, h := range cs.Driver.Handed {
			dupSeen[c.Script.Responses[h.Resp].TTL]++
		}
		for _, n := range dupSeen {
			if n > 1 {
				ri.probe("duplicate-handed-out")
				break
			}
		}
	}
	return vs
}

var _ = common.DefaultPort

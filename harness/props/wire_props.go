package props

import (
	"errors"
	"fmt"
	"math"
	"math/rand/v2"
	"net/netip"
	"strings"
	"time"

	"verifharness/codec"
	"verifharness/oracle"
	"verifharness/sim"

	"github.com/DataDog/datadog-traceroute/sack"
)

func isSerial(v *EpView) bool { return v.Spec.Proto == "tcp" }

func delayOf(c *sim.Call, proto string) time.Duration {
	if proto == "sack" && c.Entry != "sack" {
		return 10 * time.Millisecond // the runner's SACK send delay is not a request parameter
	}
	return time.Duration(c.DelayMs) * time.Millisecond
}

// hasLateOrDup reports whether the endpoint read a genuine packet for a probe that was not the
// most recently called one, or a second genuine packet for the same TTL (histories on which the
// serial engine has no exact reference).
func hasLateOrDup(v *EpView) bool {
	seen := map[int]bool{}
	for _, a := range append(append([]oracle.Accepted(nil), v.Fold.Accepted...), v.Fold.DontCares...) {
		rd := v.Ep.Reads[a.ReadN-1]
		if a.M.Probe != rd.ProbesCalled-1 {
			return true
		}
		if seen[a.M.TTL] {
			return true
		}
		seen[a.M.TTL] = true
	}
	return false
}

// ---------------------------------------------------------------------------------------------
// C01

type c01 struct{}

func init() { register(c01{}) }

func (c01) ID() string     { return "C01" }
func (c01) Level() string  { return "exploration" }
func (c01) QuickRuns() int { return 240000 }
func (c01) Rule() string {
	return "seeded protocol-level runs of every variant over the simulated wire with up to 4 single-field look-alike packets per probed TTL (each identifying field, identifier bumps to other/unprobed TTLs, +256 aliases, foreign flows, TCP replies with a foreign acknowledgement number, destination-form replies from non-target hosts, own outgoing probes), identifier bases at wrap points; a run is non-trivial when at least one look-alike was read by the endpoint; distinct = distinct (variant, TTL range, per-TTL form/perturbation) shapes"
}
func (c01) Assumptions() []string {
	return []string{"reference matcher written from the property text decides genuineness per packet against the probes called so far", "TCP SYN direct replies may be credited to the most recently sent probe (caveat of the property)"}
}

func (c01) Gen(rng *rand.Rand, tier string, i int) *sim.Scenario {
	o := &wireOpts{variants: AllVariants, bigTTL: 0.04, catalogue: true, silentProb: 0.35, dupProb: 0.1, adversarial: 4, destForms: true,
		captureOut: 0.3, wrapBases: true, noDest: 0.2, natInRelaxed: true}
	if tier == "thorough" {
		o.adversarial, o.bigTTL = 6, 0.1
	}
	wr := genWireRun(rng, o, 0, "c0")
	sc := scenarioFor("C01", rng, []*wireRun{wr})
	sc.Knobs.CaptureOutgoing = chance(rng, o.captureOut)
	applyWrapBases(rng, sc)
	if chance(rng, 0.3) {
		sc.Noise = genNoise(rng, 4, int64(wr.call.TimeoutMs)*1000, false)
	}
	// the capture filter is an optimisation (C12): in a third of the runs every frame reaches the matcher
	sc.Knobs.IgnoreFilters = chance(rng, 0.33)
	return sc
}

func lookalikeOrigin(w *sim.World, ep *sim.Endpoint, ttl int, a netip.Addr) string {
	for _, p := range w.Pkts {
		if len(p.Ep) <= ep.Idx || !p.Ep[ep.Idx].Read {
			continue
		}
		ip, err := codec.DecodeIP(p.Bytes, true)
		if err != nil || ip.Src.Unmap() != a {
			continue
		}
		switch {
		case p.Origin.Own:
			return "own-probe"
		case p.Origin.Perturb != "":
			return p.Origin.Perturb
		case p.Origin.Garbage != "":
			return "garbage"
		case p.Origin.Noise != "":
			return "noise"
		case p.Origin.Form != "":
			return "form=" + p.Origin.Form
		}
	}
	return ""
}

func (c01) Check(out *sim.Outcome, ri *RunInfo) []Violation {
	vs := crashViolations(out)
	ri.Shape = shapeOf(out.Sc)
	for _, v := range views(out) {
		for _, p := range out.W.Pkts {
			if len(p.Ep) > v.Ep.Idx && p.Ep[v.Ep.Idx].Read && (p.Origin.Perturb != "" || p.Origin.Own || p.Origin.Noise != "") {
				ri.NonTrivial = true
				ri.probe("lookalike-read")
				if p.Origin.Perturb != "" {
					ri.probe("read.perturb." + p.Origin.Perturb)
				}
			}
		}
		if v.Run == nil {
			continue
		}
		for _, h := range v.Run.Hops {
			a, ok := oracle.HopAddr(h)
			if !ok {
				continue
			}
			backed := false
			for _, acc := range v.Fold.Accepted {
				if acc.M.TTL == h.TTL && acc.M.From.Unmap() == a {
					backed = true
				}
			}
			for _, acc := range v.Fold.DontCares {
				if acc.M.TTL == h.TTL && acc.M.From.Unmap() == a {
					backed = true
				}
			}
			if backed {
				continue
			}
			origin := lookalikeOrigin(out.W, v.Ep, h.TTL, a)
			rule := "C01.unbacked-hop"
			if origin != "" && origin[:min(5, len(origin))] != "form=" {
				rule = "C01.perturbed-accepted:" + origin
			}
			vs = append(vs, Violation{Rule: rule, Detail: fmt.Sprintf("%s: hop ttl=%d addr=%s is not backed by any genuine reply read during the run (origin of the packet from that address: %q)", v.Ep.Actor, h.TTL, a, origin),
				Facts: facts("variant", variantOf(v), "origin", origin)})
		}
	}
	return vs
}

// ---------------------------------------------------------------------------------------------
// C02

type c02 struct{}

func init() { register(c02{}) }

func (c02) ID() string     { return "C02" }
func (c02) Level() string  { return "exploration" }
func (c02) QuickRuns() int { return 300000 }
func (c02) Rule() string {
	return "seeded runs of every variant where each probed TTL is answered in a randomly drawn form of the device-behaviour catalogue (28-byte/full/RFC 4884 quotes, outer IP options, rewritten quoted TTL/checksum/TOS, NAT-rewritten quoted source in relaxed mode, echo reply, unreachable codes, SYN-ACK/RST/RST-ACK, SACK blocks for ISNs incl. wrap-around) with loss, duplication, reordering of other replies and arrival times over the whole window, in 10% of the runs with a write that blocks or returns late; non-trivial = at least one genuine reply was scheduled inside the listening window; distinct = distinct (variant, per-TTL form) shapes"
}
func (c02) Assumptions() []string {
	return []string{"serial engine (TCP SYN): only histories in which every reply arrives inside its own probe's window (the property's restriction) are generated", "a reply counts as inside the window when it arrives at least one poll interval before the engine deadline computed from the request parameters"}
}

func (c02) Gen(rng *rand.Rand, tier string, i int) *sim.Scenario {
	o := &wireOpts{variants: AllVariants, bigTTL: 0.04, catalogue: true, silentProb: 0.2, dupProb: 0.15, lossProb: 0.08, lateProb: 0.05,
		wellTimed: true, overtake: true, noDest: 0.15, natInRelaxed: true, wrapBases: true}
	if tier == "thorough" {
		o.bigTTL = 0.12
	}
	wr := genWireRun(rng, o, 0, "c0")
	if wr.v.Entry != "tcp" && wr.v.Entry != "sack" && chance(rng, 0.06) {
		// probes paced slower than one poll interval: the last probe's window reaches a whole send
		// delay beyond the others', and replies may arrive anywhere in it
		wr.call.DelayMs = pick(rng, 150, 200, 300)
		last := &wr.flow.Hops[len(wr.flow.Hops)-1]
		for ri := range last.Replies {
			// (inside the extra window and never before the probe itself)
			lim := min(wr.call.DelayMs-wr.call.PollMs-5, wr.call.TimeoutMs-1)
			if last.Replies[ri].Perturb == "" && last.Replies[ri].Garbage == "" && lim >= 1 {
				last.Replies[ri].DelayUs = int64(wr.call.TimeoutMs)*1000 - int64(between(rng, 1, lim))*1000
			}
		}
	}
	if wr.v.Entry == "tcp" {
		// no late replies for the serial engine
		for hi := range wr.flow.Hops {
			for ri := range wr.flow.Hops[hi].Replies {
				r := &wr.flow.Hops[hi].Replies[ri]
				lim := int64(wr.call.TimeoutMs-wr.call.PollMs)*1000 - 1000
				if r.DelayUs > lim {
					r.DelayUs = int64(between(rng, 50, int(lim)))
				}
				r.Dup = 0
			}
		}
	}
	sc := scenarioFor("C02", rng, []*wireRun{wr})
	applyWrapBases(rng, sc)
	if chance(rng, 0.1) {
		// a slow sender: replies that arrive while a write is blocked (or has not returned) still count
		n := wr.call.MaxTTL - wr.call.MinTTL + 1
		sc.Faults = append(sc.Faults, sim.Fault{Actor: "c0", Op: "write", K: pick(rng, 1, between(rng, 1, n)), Class: pick(rng, "stall", "stallret"), Us: int64(pick(rng, 200, 5000, 40000, 150000))})
	}
	return sc
}

// engineDeadline is the instant until which the engine listens for the probe pr of view v.
func engineDeadline(v *EpView, pr *sim.ProbeRec) time.Duration {
	c := v.Call.C
	timeout := time.Duration(c.TimeoutMs) * time.Millisecond
	if isSerial(v) {
		return pr.CallAt + timeout
	}
	n := v.Spec.MaxTTL - v.Spec.MinTTL + 1
	return v.Ep.Probes[0].CallAt + timeout + time.Duration(n)*delayOf(c, v.Spec.Proto)
}

func (c02) Check(out *sim.Outcome, ri *RunInfo) []Violation {
	vs := crashViolations(out)
	ri.Shape = shapeOf(out.Sc)
	for _, v := range views(out) {
		if v.Err != nil {
			vs = append(vs, Violation{Rule: "C02.run-failed", Detail: fmt.Sprintf("%s: fault-free run failed: %v", v.Ep.Actor, v.Err), Facts: facts("variant", variantOf(v))})
			continue
		}
		if v.Run == nil {
			continue
		}
		if v.Fold.Ambiguous > 0 {
			ri.Inconclusive = "dontcare-ambiguous"
			continue
		}
		if isSerial(v) && hasLateOrDup(v) {
			ri.Inconclusive = "serial-late-reply"
			continue
		}
		poll := time.Duration(v.Call.C.PollMs) * time.Millisecond
		if poll == 0 {
			poll = 100 * time.Millisecond
		}
		// scheduled-arrival completeness
		for _, p := range out.W.Pkts {
			if p.Origin.Flow != v.Ep.Actor || p.Origin.Perturb != "" || p.Origin.Garbage != "" || p.Origin.Own || p.Origin.TTL == 0 {
				continue
			}
			var pr *sim.ProbeRec
			for _, q := range v.Ep.Probes {
				if q.TTL() == p.Origin.TTL {
					pr = q
				}
			}
			if pr == nil || len(p.Ep) <= v.Ep.Idx {
				continue
			}
			dl := engineDeadline(v, pr)
			if p.At > dl-poll {
				ri.probe("reply-in-last-poll-or-late")
				continue
			}
			// fault relaxation, narrow: a write of this endpoint that was still blocked (or had not
			// returned to its caller) during the last poll interval of this reply's window may have kept
			// the engine from reading at all; such a reply is not demanded
			cut := false
			for _, q := range v.Ep.Probes {
				if q.RetAt > q.CallAt && q.CallAt < dl && q.RetAt > dl-poll {
					cut = true
				}
			}
			if cut {
				ri.probe("window-cut-short-by-stalled-write")
				continue
			}
			ri.NonTrivial = true
			ri.probe("form." + p.Origin.Form)
			for _, q := range v.Ep.Probes {
				if q.RetAt > q.RelAt && q.RelAt <= p.At && p.At < q.RetAt {
					ri.probe("reply-arrived-during-blocked-write")
				}
			}
			pe := p.Ep[v.Ep.Idx]
			if !pe.Read && v.Run != nil {
				// a reply nobody read is only owed its hop if it could still have changed the result: once the
				// run reports the destination at TTL d, nothing for a TTL above d can (the path ends at d), and
				// nothing for d itself can (a destination entry is never replaced)
				if n := len(v.Run.Hops); n > 0 && v.Run.Hops[n-1].IsDest && p.Origin.TTL >= v.Run.Hops[n-1].TTL {
					ri.probe("unread-reply-could-not-change-the-result")
					continue
				}
			}
			if !pe.Read {
				why := "never returned by Read"
				if pe.Seen && !pe.Accepted {
					why = "rejected by the installed capture filter"
				}
				vs = append(vs, Violation{Rule: "C02.missed-reply:" + p.Origin.Form, Detail: fmt.Sprintf("%s: genuine %s reply for ttl=%d arrived at %v (deadline %v) but was %s", v.Ep.Actor, p.Origin.Form, p.Origin.TTL, p.At, engineDeadline(v, pr), why),
					Facts: facts("variant", variantOf(v), "form", p.Origin.Form)})
			}
		}
		// every genuine reply read must be reflected (within the destination cut)
		hops := v.Run.Hops
		for _, e := range v.Fold.Expected() {
			if !e.Addr.IsValid() {
				continue
			}
			form := out.W.Pkts[e.Ref.Pkt].Origin.Form
			i := e.TTL - v.Spec.MinTTL
			if i >= len(hops) {
				vs = append(vs, Violation{Rule: "C02.missed-reply:" + form, Detail: fmt.Sprintf("%s: ttl=%d answered by %s (%s) but the path has only %d hops", v.Ep.Actor, e.TTL, e.Addr, form, len(hops)),
					Facts: facts("variant", variantOf(v), "form", form)})
				continue
			}
			a, ok := oracle.HopAddr(hops[i])
			if !ok || a != e.Addr.Unmap() {
				vs = append(vs, Violation{Rule: "C02.missed-reply:" + form, Detail: fmt.Sprintf("%s: ttl=%d answered by %s (%s, read at %v) but reported as %v", v.Ep.Actor, e.TTL, e.Addr, form, e.Ref.ReadAt, hops[i].IPAddress),
					Facts: facts("variant", variantOf(v), "form", form)})
			}
		}
	}
	return vs
}

// ---------------------------------------------------------------------------------------------
// C03 (wire part; the scripted-engine part is in engine_props.go)

func shapeViolations(actor, variant string, minTTL, maxTTL int, hops []hopLite, lowestDest int, exact bool) []Violation {
	var vs []Violation
	bad := func(kind, d string) {
		vs = append(vs, Violation{Rule: "C03.shape:" + kind, Detail: actor + ": " + d, Facts: facts("variant", variant)})
	}
	if len(hops) == 0 {
		bad("empty", "successful run with an empty hop list")
		return vs
	}
	if len(hops) > maxTTL-minTTL+1 {
		bad("length", fmt.Sprintf("%d hops for ttl range %d..%d", len(hops), minTTL, maxTTL))
	}
	for i, h := range hops {
		if h.TTL != minTTL+i {
			bad("gap", fmt.Sprintf("position %d holds ttl %d, expected %d", i, h.TTL, minTTL+i))
			break
		}
		if h.Dest && i != len(hops)-1 {
			bad("dest-not-last", fmt.Sprintf("ttl %d is marked destination but is not the last entry (%d entries)", h.TTL, len(hops)))
		}
		if !h.HasAddr && (h.RTT != 0 || h.Dest) {
			bad("empty", fmt.Sprintf("unanswered ttl %d carries rtt=%v dest=%v", h.TTL, h.RTT, h.Dest))
		}
	}
	last := hops[len(hops)-1]
	if !last.Dest && len(hops) != maxTTL-minTTL+1 {
		bad("length", fmt.Sprintf("no destination entry but only %d of %d ttls listed", len(hops), maxTTL-minTTL+1))
	}
	if exact {
		want := maxTTL - minTTL + 1
		if lowestDest > 0 {
			want = lowestDest - minTTL + 1
		}
		if len(hops) != want {
			bad("length", fmt.Sprintf("%d entries, expected %d (lowest destination-answered ttl: %d)", len(hops), want, lowestDest))
		}
	}
	return vs
}

type hopLite struct {
	TTL     int
	HasAddr bool
	Dest    bool
	RTT     float64
}

type c03 struct{}

func init() { register(c03{}) }

func (c03) ID() string     { return "C03" }
func (c03) Level() string  { return "exploration" }
func (c03) QuickRuns() int { return 320000 }
func (c03) Rule() string {
	return "half of the runs drive both engines through a scripted driver answering any subset of TTLs, several TTLs as destination, duplicates and late responses under scheduler-chosen interleavings; the other half are protocol-level runs of every variant over the wire (first/last TTL anywhere in 1..255); the shape invariant is evaluated on every successful return ([]ProbeResponse, ToHops output, run.Hops); non-trivial = the run returned a path; distinct = distinct scenario shapes"
}
func (c03) Assumptions() []string {
	return []string{"the lowest destination-answered TTL is taken from the reference fold over the replies actually handed to the engine; for the serial engine with late or duplicate replies only the structural rules are applied"}
}

func (c03) Gen(rng *rand.Rand, tier string, i int) *sim.Scenario {
	if i%2 == 0 {
		return genEngineScenario("C03", rng, engineOpts{serial: chance(rng, 0.5), multiDest: true, late: true, bigTTL: 0.1, outOfRange: 0.1})
	}
	o := &wireOpts{variants: AllVariants, bigTTL: 0.15, silentProb: 0.4, dupProb: 0.2, lossProb: 0.05, lateProb: 0.15, overtake: true, noDest: 0.3, destForms: true}
	wr := genWireRun(rng, o, 0, "c0")
	return scenarioFor("C03", rng, []*wireRun{wr})
}

func (c03) Check(out *sim.Outcome, ri *RunInfo) []Violation {
	vs := crashViolations(out)
	ri.Shape = shapeOf(out.Sc)
	vs = append(vs, engineShapeCheck(out, ri)...)
	for _, v := range views(out) {
		if v.Run == nil {
			continue
		}
		ri.NonTrivial = true
		var hl []hopLite
		for _, h := range v.Run.Hops {
			_, ok := oracle.HopAddr(h)
			hl = append(hl, hopLite{TTL: h.TTL, HasAddr: ok, Dest: h.IsDest, RTT: h.RTT})
		}
		exact := v.Fold.Ambiguous == 0 && !(isSerial(v) && hasLateOrDup(v))
		if v.Fold.LowestDest > 0 {
			ri.probe("dest-answered")
			nd := 0
			for _, h := range v.Fold.Hops {
				if h.Dest {
					nd++
				}
			}
			if nd >= 2 {
				ri.probe("dest-answered-several-ttls")
			}
		}
		vs = append(vs, shapeViolations(v.Ep.Actor, variantOf(v), v.Spec.MinTTL, v.Spec.MaxTTL, hl, v.Fold.LowestDest, exact)...)
	}
	return vs
}

// ---------------------------------------------------------------------------------------------
// C04

type c04 struct{}

func init() { register(c04{}) }

func (c04) ID() string     { return "C04" }
func (c04) Level() string  { return "exploration" }
func (c04) QuickRuns() int { return 300000 }
func (c04) Rule() string {
	return "C01's generator plus a dedicated family: destination-form replies (echo reply, SYN-ACK/RST, SACK ACK, unreachable) carrying the right identifiers but sent by hosts that are not the target, and time-exceeded sent by mid-path routers and by the target itself, destination-unreachable sent by the target for the non-UDP variants (a REJECTing host firewall: not a proof of arrival there); a hop must be marked destination iff the reply the reference fold selected for it is a proof-of-arrival reply from the target, and every destination mark needs some proof-of-arrival packet read for that TTL even when don't-care packets make the exact comparison inconclusive; non-trivial = a destination-form packet from a non-target host or an error from the target was read; distinct = distinct shapes"
}
func (c04) Assumptions() []string {
	return []string{"proof-of-arrival per protocol as listed in the property: echo reply (ICMP), any matched ICMP error from the target (UDP), SYN-ACK/RST from the target port (TCP SYN), selective ACK from the target port or time-exceeded from the target (SACK)"}
}

func (c04) Gen(rng *rand.Rand, tier string, i int) *sim.Scenario {
	if i%6 == 5 {
		// whole requests: the end-to-end RTT must come from a destination-marked hop
		return genRequestScenario("C04", rng, requestOpts{queriesMin: 1, queriesMax: 2, e2eMax: 3, silentProb: 0.3, targetTE: true})
	}
	o := &wireOpts{variants: AllVariants, bigTTL: 0.03, catalogue: true, silentProb: 0.3, dupProb: 0.1, adversarial: 1, destForms: true, noDest: 0.2, wrapBases: true}
	wr := genWireRun(rng, o, 0, "c0")
	sc := scenarioFor("C04", rng, []*wireRun{wr})
	applyWrapBases(rng, sc)
	// the capture filter is an optimisation (C12: enabling it never changes a result; on other
	// platforms it does not exist): in a third of the runs every frame reaches the matcher
	sc.Knobs.IgnoreFilters = chance(rng, 0.33)
	return sc
}

func (c04) Check(out *sim.Outcome, ri *RunInfo) []Violation {
	vs := crashViolations(out)
	ri.Shape = shapeOf(out.Sc)
	vws := views(out)
	for _, ev := range e2eRTTViolations(out, vws, ri) {
		ev.Rule = "C04.e2e-not-from-destination"
		vs = append(vs, ev)
	}
	for _, v := range vws {
		for _, p := range out.W.Pkts {
			if len(p.Ep) > v.Ep.Idx && p.Ep[v.Ep.Idx].Read && p.Origin.Flow == v.Ep.Actor {
				ip, err := codec.DecodeIP(p.Bytes, true)
				if err != nil {
					continue
				}
				base := p.Origin.Form
				if i := strings.IndexByte(base, ':'); i >= 0 && !strings.HasPrefix(base, "unreach") {
					base = base[:i]
				}
				fromTarget := ip.Src == v.Spec.Target.Addr()
				destForm := base == "echo" || base == "synack" || base == "rst" || base == "rstack" || base == "sack" || (len(base) >= 7 && base[:7] == "unreach")
				if destForm && !fromTarget {
					ri.NonTrivial = true
					ri.probe("dest-form-from-non-target")
				}
				if !destForm && fromTarget {
					ri.NonTrivial = true
					ri.probe("error-from-target")
				}
			}
		}
		if v.Run == nil {
			continue
		}
		// a destination mark needs a packet that proves arrival for this ttl: this also holds when
		// don't-care packets make the rest of the reference ambiguous
		for _, h := range v.Run.Hops {
			a, ok := oracle.HopAddr(h)
			if !h.IsDest || !ok || a != v.Spec.Target.Addr().Unmap() {
				continue
			}
			backed := false
			for _, l := range [][]oracle.Accepted{v.Fold.Accepted, v.Fold.DontCares} {
				for _, acc := range l {
					if acc.M.TTL == h.TTL && acc.M.Dest && acc.M.From.Unmap() == a {
						backed = true
					}
				}
			}
			if !backed {
				vs = append(vs, Violation{Rule: "C04.dest-flag:false-positive", Detail: fmt.Sprintf("%s: ttl=%d addr=%s marked destination but no packet read for that ttl (genuine or don't-care) is a proof of arrival for %s", v.Ep.Actor, h.TTL, a, v.Spec.Proto), Facts: facts("variant", variantOf(v))})
			}
		}
		if v.Fold.Ambiguous > 0 {
			ri.Inconclusive = "dontcare-ambiguous"
			continue
		}
		serialLoose := isSerial(v) && hasLateOrDup(v)
		for _, h := range v.Run.Hops {
			a, ok := oracle.HopAddr(h)
			if h.IsDest && (!ok || a != v.Spec.Target.Addr().Unmap()) {
				vs = append(vs, Violation{Rule: "C04.dest-flag:false-positive", Detail: fmt.Sprintf("%s: ttl=%d addr=%v marked destination but the target is %s", v.Ep.Actor, h.TTL, h.IPAddress, v.Spec.Target.Addr()),
					Facts: facts("variant", variantOf(v))})
				continue
			}
			if !ok || serialLoose {
				continue
			}
			ref := v.Fold.Hops[h.TTL]
			if ref == nil || ref.Addr.Unmap() != a {
				if h.IsDest {
					vs = append(vs, Violation{Rule: "C04.dest-flag:false-positive", Detail: fmt.Sprintf("%s: ttl=%d addr=%s marked destination without a proof-of-arrival reply for that ttl", v.Ep.Actor, h.TTL, a), Facts: facts("variant", variantOf(v))})
				}
				continue
			}
			if h.IsDest && !ref.Dest {
				vs = append(vs, Violation{Rule: "C04.dest-flag:false-positive", Detail: fmt.Sprintf("%s: ttl=%d addr=%s marked destination but the reply used (%s) is not a proof of arrival", v.Ep.Actor, h.TTL, a, out.W.Pkts[ref.Pkt].Origin.Form), Facts: facts("variant", variantOf(v))})
			}
			if !h.IsDest && ref.Dest {
				vs = append(vs, Violation{Rule: "C04.dest-flag:false-negative", Detail: fmt.Sprintf("%s: ttl=%d addr=%s answered by the target with %s but not marked destination", v.Ep.Actor, h.TTL, a, out.W.Pkts[ref.Pkt].Origin.Form), Facts: facts("variant", variantOf(v))})
			}
		}
	}
	return vs
}

// ---------------------------------------------------------------------------------------------
// C05

type c05 struct{}

func init() { register(c05{}) }

func (c05) ID() string     { return "C05" }
func (c05) Level() string  { return "exploration" }
func (c05) QuickRuns() int { return 130000 }
func (c05) Rule() string {
	return "seeded runs of every variant with arbitrary per-hop delays on the virtual clock (non-monotone, duplicates with larger delay, later probes' replies overtaking earlier ones, production-scale 1-3 s timeouts, send delays from 0 to several poll intervals, in-seam stalls of the sender: a write that blocks before the packet leaves, and a write whose packet leaves at once but that returns to its caller late), plus RunTraceroute requests with end-to-end probes; each reported RTT is compared with (arrival of the first accepted reply) - (hand-off of the same probe), tolerance one observed poll interval; non-trivial = a hop with an RTT was reported; distinct = distinct shapes"
}
func (c05) Assumptions() []string {
	return []string{"hand-off of a probe is the call of Sink.WriteTo (a write that blocks before the packet leaves counts towards the round trip); arrival is the instant the packet reaches the capture queue", "the poll interval is observed per read (deadline minus the instant it was set), not copied from the code"}
}

func (c05) Gen(rng *rand.Rand, tier string, i int) *sim.Scenario {
	if i%5 == 4 {
		return genRequestScenario("C05", rng, requestOpts{e2eMax: 4, queriesMax: 2, delays: true, targetTE: true})
	}
	o := &wireOpts{variants: AllVariants, bigTTL: 0.02, silentProb: 0.15, dupProb: 0.5, lateProb: 0.05, overtake: true, prodTimeouts: true, noDest: 0.2, senderStall: 0.3}
	wr := genWireRun(rng, o, 0, "c0")
	sc := scenarioFor("C05", rng, []*wireRun{wr})
	if chance(rng, o.senderStall) {
		n := wr.call.MaxTTL - wr.call.MinTTL + 1
		sc.Faults = append(sc.Faults, sim.Fault{Actor: "c0", Op: "write", K: pick(rng, 1, 1, between(rng, 1, n), between(rng, 1, n)), Class: pick(rng, "stall", "stallret"), Us: int64(pick(rng, 200, 5000, 40000, 250000))})
	}
	return sc
}

func rttViolations(v *EpView, out *sim.Outcome, ri *RunInfo) []Violation {
	var vs []Violation
	if v.Run == nil || v.Fold.Ambiguous > 0 {
		return nil
	}
	for _, h := range v.Run.Hops {
		a, ok := oracle.HopAddr(h)
		if h.RTT < 0 {
			vs = append(vs, Violation{Rule: "C05.rtt:negative", Detail: fmt.Sprintf("%s: ttl=%d rtt=%v ms", v.Ep.Actor, h.TTL, h.RTT), Facts: facts("variant", variantOf(v))})
			continue
		}
		if !ok {
			continue
		}
		ref := v.Fold.Hops[h.TTL]
		if ref == nil || ref.Addr.Unmap() != a || ref.Dest != h.IsDest {
			continue // attribution differences are C01/C02/C04's business
		}
		if v.Spec.Proto == "tcp" && ref.Pkt >= 0 {
			if o := out.W.Pkts[ref.Pkt].Origin; o.TTL != 0 && o.TTL != h.TTL {
				// a SYN-ACK/RST carries no per-probe identifier: credited (as the property allows) to a
				// later probe than the one that caused it, its RTT is not defined by the property
				ri.probe("tcp-direct-reply-credited-to-later-probe")
				continue
			}
		}
		ri.NonTrivial = true
		pr := v.Ep.Probes[ref.Probe]
		rtt := time.Duration(math.Round(h.RTT * 1e6))
		// the probe is handed to the network when Sink.WriteTo is called (the property's anchor: the
		// timestamp is taken just before the write); a write that blocks is part of the round trip
		lo := ref.ArriveAt - pr.CallAt - time.Microsecond
		hi := ref.ArriveAt - pr.CallAt + ref.PollObs + time.Microsecond
		dups := 0
		for _, acc := range v.Fold.Accepted {
			if acc.M.TTL == h.TTL {
				dups++
			}
		}
		if dups > 1 {
			ri.probe("duplicate-for-reported-hop")
		}
		if pr.RelAt > pr.CallAt {
			ri.probe("sender-stalled-in-write")
		}
		// a reply that reached the capture queue while the goroutine that also does the reading
		// (serial engine) was held up inside WriteTo cannot be read before that write returns: the
		// bound is relaxed to that instant, for this hop only
		var behind *sim.ProbeRec
		for _, p2 := range v.Ep.Probes {
			if p2.RetAt > p2.RelAt && p2.RelAt <= ref.ArriveAt && ref.ArriveAt < p2.RetAt {
				behind = p2
			}
		}
		if behind != nil {
			ri.probe("reply-arrived-during-blocked-write")
			if isSerial(v) {
				if h2 := behind.RetAt - pr.CallAt + ref.PollObs + time.Microsecond; h2 > hi {
					hi = h2
				}
			}
		}
		switch {
		case rtt < lo:
			vs = append(vs, Violation{Rule: "C05.rtt:below", Detail: fmt.Sprintf("%s: ttl=%d rtt=%v but the first accepted reply arrived %v after the probe was handed to WriteTo (call %v, write returned %v, arrival %v)", v.Ep.Actor, h.TTL, rtt, ref.ArriveAt-pr.CallAt, pr.CallAt, pr.RelAt, ref.ArriveAt),
				Facts: facts("variant", variantOf(v))})
		case rtt > hi:
			vs = append(vs, Violation{Rule: "C05.rtt:above", Detail: fmt.Sprintf("%s: ttl=%d rtt=%v exceeds (arrival of first accepted reply %v - probe hand-off %v) = %v by more than one poll interval (%v); %d genuine replies were read for this ttl", v.Ep.Actor, h.TTL, rtt, ref.ArriveAt, pr.CallAt, ref.ArriveAt-pr.CallAt, ref.PollObs, dups),
				Facts: facts("variant", variantOf(v), "cause", rttCause(v, ref, pr, rtt, dups, behind))})
		}
	}
	return vs
}

// rttCause classifies an over-estimated RTT by what the ledger shows: the reply sat in the capture
// queue for more than a poll interval before the engine read it ("late-read"), a later duplicate
// replaced the first accepted reply ("duplicate-overwrote"), the receiver had not started because
// the first write had not returned, or none of these.
func rttCause(v *EpView, ref *oracle.RefHop, pr *sim.ProbeRec, rtt time.Duration, dups int, behind *sim.ProbeRec) string {
	engine := "parallel"
	if isSerial(v) {
		engine = "serial"
	}
	// the parallel engine's receiver goroutine does not start reading before the first SendProbe has
	// returned: a reply that arrives while that first write is still blocked waits in the queue
	if !isSerial(v) && behind != nil && behind.N == 1 && rtt <= behind.RetAt-pr.CallAt+ref.PollObs+time.Microsecond {
		return "parallel-reader-waits-for-first-send"
	}
	if ref.ReadAt-ref.ArriveAt > ref.PollObs && rtt <= ref.ReadAt-pr.CallAt+time.Microsecond {
		return engine + "-late-read"
	}
	if dups > 1 {
		return engine + "-duplicate-overwrote"
	}
	return engine + "-other"
}

func (c05) Check(out *sim.Outcome, ri *RunInfo) []Violation {
	vs := crashViolations(out)
	ri.Shape = shapeOf(out.Sc)
	vws := views(out)
	for _, v := range vws {
		vs = append(vs, rttViolations(v, out, ri)...)
	}
	vs = append(vs, e2eRTTViolations(out, vws, ri)...)
	return vs
}

// ---------------------------------------------------------------------------------------------
// C06

type c06 struct{}

func init() { register(c06{}) }

func (c06) ID() string     { return "C06" }
func (c06) Level() string  { return "exploration" }
func (c06) QuickRuns() int { return 240000 }
func (c06) Rule() string {
	return "every byte string handed to Sink.WriteTo in seeded runs of every variant (TTL ranges anywhere in 1..255, IP-ID/echo-id/ISN bases at wrap points, any network behaviour deciding when the destination is seen) is decoded by the independent codec and checked per probe (lengths, checksums, TTL, flow constancy, identifier uniqueness) and per run (one probe per TTL, increasing order, pacing, nothing after the destination answer, reported endpoints); non-trivial = at least two probes were emitted; distinct = distinct (variant, TTL range, timing) shapes; the thorough tier additionally walks every TTL 1..255 of every variant"
}
func (c06) Assumptions() []string {
	return []string{"Paris-mode sequence numbers are random: a collision is counted, not reported", "the ICMP run's reported source port is not compared (ICMP has no port on the wire)"}
}

func (c06) Gen(rng *rand.Rand, tier string, i int) *sim.Scenario {
	o := &wireOpts{variants: AllVariants, bigTTL: 0.12, silentProb: 0.3, dupProb: 0.1, lateProb: 0.05, overtake: true, noDest: 0.3, wrapBases: true}
	if tier == "thorough" && i%50 == 0 {
		o.bigTTL = 1
	}
	wr := genWireRun(rng, o, 0, "c0")
	if tier == "thorough" && i%50 == 0 {
		wr.call.MinTTL, wr.call.MaxTTL = 1, 255
		wr.call.DelayMs = pick(rng, 0, 1)
		wr.dest = 0
		wr.flow.Hops = nil
		wr.flow.ProbeLoss = nil
	}
	if chance(rng, 0.1) && wr.call.MaxTTL-wr.call.MinTTL < 12 {
		// pacing slower than the listening window: the delay still has to be waited out
		wr.call.DelayMs = wr.call.TimeoutMs + pick(rng, 1, 50, 400)
	}
	sc := scenarioFor("C06", rng, []*wireRun{wr})
	applyWrapBases(rng, sc)
	if len(sc.Listeners) == 0 {
		// the local port is the scenario's, not the kernel's: what depends on it (checksums, tags) is
		// reached on purpose and replays
		sc.Knobs.LocalPort = between(rand.New(rand.NewPCG(uint64(i), 6)), 1025, 65000)
	}
	return sc
}

func emissionViolations(v *EpView, out *sim.Outcome, ri *RunInfo) []Violation {
	var vs []Violation
	bad := func(kind, d string) {
		vs = append(vs, Violation{Rule: "C06." + kind, Detail: v.Ep.Actor + ": " + d, Facts: facts("variant", variantOf(v))})
	}
	c := v.Call.C
	probes := v.Ep.Probes
	if len(probes) >= 2 {
		ri.NonTrivial = true
	}
	delay := delayOf(c, v.Spec.Proto)
	ids := map[string]int{}
	var first *sim.ProbeRec
	for i, p := range probes {
		if p.DecErr != "" || p.IP == nil || p.L4 == nil {
			bad("decode", fmt.Sprintf("probe #%d does not decode: %s", p.N, p.DecErr))
			continue
		}
		if !p.IP.LenOK {
			bad("length", fmt.Sprintf("probe #%d: IP length field %d != %d bytes written", p.N, p.IP.TotalLen, len(p.Bytes)))
		}
		if !p.IP.CsumOK {
			bad("checksum", fmt.Sprintf("probe #%d (ttl %d): bad IPv4 header checksum", p.N, p.TTL()))
		}
		if !p.L4.Complete {
			bad("length", fmt.Sprintf("probe #%d: transport header incomplete", p.N))
			continue
		}
		if !p.L4.CsumOK {
			bad("checksum", fmt.Sprintf("probe #%d (ttl %d): bad transport checksum or length", p.N, p.TTL()))
		}
		wantTTL := v.Spec.MinTTL + i
		if p.TTL() != wantTTL {
			bad("order", fmt.Sprintf("probe #%d carries ttl %d, expected %d (one probe per ttl, increasing from the first ttl)", p.N, p.TTL(), wantTTL))
		}
		if p.TTL() > v.Spec.MaxTTL || p.TTL() < v.Spec.MinTTL {
			bad("ttl", fmt.Sprintf("probe #%d carries ttl %d outside %d..%d", p.N, p.TTL(), v.Spec.MinTTL, v.Spec.MaxTTL))
		}
		if p.IP.Dst != v.Spec.Target.Addr() || p.Dst.Addr().Unmap() != v.Spec.Target.Addr() {
			bad("flow", fmt.Sprintf("probe #%d goes to %s / sink address %s, target is %s", p.N, p.IP.Dst, p.Dst.Addr(), v.Spec.Target.Addr()))
		}
		if v.Spec.Proto != "icmp" && p.L4.DstPort != v.Spec.Target.Port() {
			bad("flow", fmt.Sprintf("probe #%d goes to port %d, requested %d", p.N, p.L4.DstPort, v.Spec.Target.Port()))
		}
		wantProto := map[string]uint8{"icmp": codec.ProtoICMP, "udp": codec.ProtoUDP, "tcp": codec.ProtoTCP, "sack": codec.ProtoTCP}[v.Spec.Proto]
		if v.Spec.Proto == "icmp" && v.Spec.V6 {
			wantProto = codec.ProtoICMPv6
		}
		if p.IP.Proto != wantProto {
			bad("flow", fmt.Sprintf("probe #%d has protocol %d, expected %d", p.N, p.IP.Proto, wantProto))
		}
		if first == nil {
			first = p
		} else if p.IP.Src != first.IP.Src || p.IP.Dst != first.IP.Dst || p.L4.SrcPort != first.L4.SrcPort || p.L4.DstPort != first.L4.DstPort {
			bad("flow", fmt.Sprintf("probe #%d changes the flow: %s:%d->%s:%d vs %s:%d->%s:%d", p.N, p.IP.Src, p.L4.SrcPort, p.IP.Dst, p.L4.DstPort, first.IP.Src, first.L4.SrcPort, first.IP.Dst, first.L4.DstPort))
		}
		var id string
		switch v.Spec.Proto {
		case "icmp":
			id = fmt.Sprintf("%d/%d", p.L4.ICMPID, p.L4.ICMPSeq)
			et := uint8(codec.V4Echo)
			if v.Spec.V6 {
				et = codec.V6Echo
			}
			if p.L4.ICMPType != et || p.L4.ICMPCode != 0 {
				bad("flow", fmt.Sprintf("probe #%d is ICMP type %d code %d, not an echo request", p.N, p.L4.ICMPType, p.L4.ICMPCode))
			}
		case "udp":
			if v.Spec.V6 {
				id = fmt.Sprint(p.IP.TotalLen)
			} else {
				id = fmt.Sprint(p.IP.ID)
			}
		case "tcp":
			id = fmt.Sprintf("%d/%d", p.IP.ID, p.L4.Seq)
			if p.L4.Flags != codec.FlagSYN {
				bad("flow", fmt.Sprintf("probe #%d has TCP flags %#x, expected SYN", p.N, p.L4.Flags))
			}
		case "sack":
			id = fmt.Sprint(p.L4.Seq)
			if p.L4.Flags != codec.FlagACK|codec.FlagPSH {
				bad("flow", fmt.Sprintf("probe #%d has TCP flags %#x, expected ACK|PSH", p.N, p.L4.Flags))
			}
		}
		if prev, dup := ids[id]; dup {
			if v.Spec.Proto == "tcp" && v.Spec.Paris {
				ri.probe("paris-seq-collision")
			} else {
				bad("dup-id", fmt.Sprintf("probes #%d and #%d share the per-probe identifier %s", prev, p.N, id))
			}
		}
		ids[id] = p.N
		if i > 0 && p.CallAt < probes[i-1].CallAt+delay {
			bad("pacing", fmt.Sprintf("probe #%d handed over %v after probe #%d, configured delay %v", p.N, p.CallAt-probes[i-1].CallAt, probes[i-1].N, delay))
		}
		if p.AfterClose {
			bad("after-close", fmt.Sprintf("probe #%d written after the sink was closed", p.N))
		}
	}
	if len(probes) > v.Spec.MaxTTL-v.Spec.MinTTL+1 {
		bad("order", fmt.Sprintf("%d probes for %d ttls", len(probes), v.Spec.MaxTTL-v.Spec.MinTTL+1))
	}
	// nothing after the destination answer was seen (one in flight excepted)
	ambiguousDest := false
	for _, d := range v.Fold.DontCares {
		if d.M.Dest {
			ambiguousDest = true
		}
	}
	if !ambiguousDest {
		for _, acc := range v.Fold.Accepted {
			if !acc.M.Dest {
				continue
			}
			rd := v.Ep.Reads[acc.ReadN-1]
			ri.probe("dest-seen")
			if len(probes) > rd.ProbesCalled {
				bad("after-dest", fmt.Sprintf("destination reply for ttl %d was returned at %v when %d probes had been handed over, yet %d were sent in total", acc.M.TTL, rd.RetAt, rd.ProbesCalled, len(probes)))
			} else if len(probes) < v.Spec.MaxTTL-v.Spec.MinTTL+1 {
				ri.probe("sender-stopped-early")
			}
			break
		}
	}
	// reported endpoints
	if v.Run != nil && first != nil {
		src, _ := netip.AddrFromSlice(v.Run.Source.IPAddress)
		dst, _ := netip.AddrFromSlice(v.Run.Destination.IPAddress)
		if src.Unmap() != first.IP.Src.Unmap() || dst.Unmap() != first.IP.Dst.Unmap() {
			bad("endpoints", fmt.Sprintf("result says %s -> %s, wire says %s -> %s", src, dst, first.IP.Src, first.IP.Dst))
		}
		if v.Spec.Proto != "icmp" && (v.Run.Source.Port != first.L4.SrcPort || v.Run.Destination.Port != first.L4.DstPort) {
			bad("endpoints", fmt.Sprintf("result says ports %d -> %d, wire says %d -> %d", v.Run.Source.Port, v.Run.Destination.Port, first.L4.SrcPort, first.L4.DstPort))
		}
	}
	return vs
}

func (c06) Check(out *sim.Outcome, ri *RunInfo) []Violation {
	vs := crashViolations(out)
	ri.Shape = shapeOf(out.Sc)
	for _, v := range views(out) {
		if v.Spec.MaxTTL == 255 && len(v.Ep.Probes) == 255 {
			ri.probe("all-255-ttls")
		}
		vs = append(vs, emissionViolations(v, out, ri)...)
	}
	return vs
}

// ---------------------------------------------------------------------------------------------
// C09

type c09 struct{}

func init() { register(c09{}) }

func (c09) ID() string     { return "C09" }
func (c09) Level() string  { return "exploration" }
func (c09) QuickRuns() int { return 150000 }
func (c09) Rule() string {
	return "seeded runs of every variant and both families with damaged packets injected as a network fault before, between and after genuine replies: every truncation length, bit flips and overwrites of structural fields (version, IHL, lengths, protocol, inner headers, TCP data offset, option lengths), oversize packets, random byte strings of 0..2048 bytes with forced IPv4/IPv6 version nibbles, unrelated SCTP/fragment/foreign-flow traffic; the run must not crash or fail and must return the reference fold of the genuine replies; non-trivial = at least one damaged or random packet was read by the endpoint; distinct = distinct shapes. Not coverage-guided fuzzing: generation is seeded and structure-aware only"
}
func (c09) Assumptions() []string {
	return []string{"a damaged copy of a genuine reply is delivered after the genuine copy, so that accepting it as a duplicate cannot change the result; damaged packets that still identify a probe but whose form the catalogue does not require are don't-care", "the one allowed early end: SACK target acknowledging on the probed connection without SACK blocks"}
}

func (c09) Gen(rng *rand.Rand, tier string, i int) *sim.Scenario {
	o := &wireOpts{variants: AllVariants, bigTTL: 0.02, catalogue: true, silentProb: 0.25, garbage: 3, noDest: 0.2, wellTimed: true}
	if tier == "thorough" {
		o.garbage, o.bigTTL = 5, 0.05
	}
	wr := genWireRun(rng, o, 0, "c0")
	if wr.v.Entry == "tcp" {
		for hi := range wr.flow.Hops {
			for ri := range wr.flow.Hops[hi].Replies {
				r := &wr.flow.Hops[hi].Replies[ri]
				lim := int64(wr.call.TimeoutMs-wr.call.PollMs)*1000 - 6000
				if r.DelayUs > lim {
					r.DelayUs = int64(between(rng, 50, int(lim)))
				}
			}
		}
	}
	sc := scenarioFor("C09", rng, []*wireRun{wr})
	sc.Noise = genNoise(rng, 8, int64(wr.call.TimeoutMs)*1000, chance(rng, 0.1))
	return sc
}

func (c09) Check(out *sim.Outcome, ri *RunInfo) []Violation {
	vs := crashViolations(out)
	ri.Shape = shapeOf(out.Sc)
	for _, v := range views(out) {
		for _, p := range out.W.Pkts {
			if len(p.Ep) > v.Ep.Idx && p.Ep[v.Ep.Idx].Read && (p.Origin.Garbage != "" || p.Origin.Noise != "") {
				ri.NonTrivial = true
				if p.Origin.Garbage != "" {
					g, _ := splitFirst(p.Origin.Garbage)
					ri.probe("read.garbage." + g)
				} else {
					g, _ := splitFirst(p.Origin.Noise)
					ri.probe("read.noise." + g)
				}
			}
		}
		if v.Fold.PlainAck {
			var ns *sack.NotSupportedError
			if v.Err == nil || !errors.As(v.Err, &ns) {
				vs = append(vs, Violation{Rule: "C09.abort", Detail: fmt.Sprintf("%s: plain ACK without SACK blocks on the probed connection must end the run with NotSupportedError, got %v", v.Ep.Actor, v.Err), Facts: facts("variant", variantOf(v))})
			}
			continue
		}
		if v.Err != nil && v.Fold.PlainAckMaybe {
			var ns *sack.NotSupportedError
			if errors.As(v.Err, &ns) {
				ri.probe("damaged-plain-ack-ended-run")
				continue
			}
		}
		if v.Err != nil {
			vs = append(vs, Violation{Rule: "C09.abort", Detail: fmt.Sprintf("%s: run aborted by inbound bytes: %v (last packet read: %s)", v.Ep.Actor, v.Err, lastReadOrigin(out.W, v.Ep)), Facts: facts("variant", variantOf(v), "cause", errClass(v.Err))})
			continue
		}
		if v.Run == nil {
			continue
		}
		if v.Fold.Ambiguous > 0 {
			ri.Inconclusive = "dontcare-ambiguous"
			continue
		}
		if isSerial(v) && hasLateOrDup(v) {
			ri.Inconclusive = "serial-late-reply"
			continue
		}
		if d := v.Fold.Diff(v.Run.Hops); d != "" {
			vs = append(vs, Violation{Rule: "C09.result-changed", Detail: v.Ep.Actor + ": " + d, Facts: facts("variant", variantOf(v))})
		}
		vs = append(vs, rttViolations(v, out, &RunInfo{})...)
	}
	return vs
}

func splitFirst(s string) (string, string) {
	for i := 0; i < len(s); i++ {
		if s[i] == ':' {
			return s[:i], s[i+1:]
		}
	}
	return s, ""
}

func lastReadOrigin(w *sim.World, ep *sim.Endpoint) string {
	for i := len(ep.Reads) - 1; i >= 0; i-- {
		if ep.Reads[i].Pkt >= 0 {
			o := w.Pkts[ep.Reads[i].Pkt].Origin
			return fmt.Sprintf("%+v", o)
		}
	}
	return "none"
}

// errClass reduces an error chain to a stable, scenario-independent class for known-finding
// matching: the innermost message with digits and addresses removed.
func errClass(err error) string {
	s := err.Error()
	if i := strings.LastIndex(s, "parse: "); i >= 0 {
		s = s[i:]
	}
	var b strings.Builder
	for _, r := range s {
		switch {
		case r >= '0' && r <= '9':
		case r == ' ' || r == ',' || r == ':' || r == '(' || r == ')' || r == '<' || r == '=':
			if b.Len() > 0 && b.String()[b.Len()-1] != '_' {
				b.WriteByte('_')
			}
		default:
			b.WriteRune(r)
		}
	}
	out := b.String()
	if len(out) > 48 {
		out = out[:48]
	}
	return out
}

func containsStr(s, sub string) bool {
	for i := 0; i+len(sub) <= len(s); i++ {
		if s[i:i+len(sub)] == sub {
			return true
		}
	}
	return false
}

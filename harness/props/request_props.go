package props

import (
	"fmt"
	"math"
	"time"

	"verifharness/sim"
)

type interval struct {
	lo, hi time.Duration
	zero   bool
	actor  string
}

// e2eRTTViolations checks C05's last sentence: every end-to-end RTT sample is the destination
// hop's RTT of one e2e probe's run, with 0 meaning no answer. Samples are appended in completion
// order, so samples and probes are matched as multisets.
func e2eRTTViolations(out *sim.Outcome, vws []*EpView, ri *RunInfo) []Violation {
	var vs []Violation
	for _, cs := range out.W.Calls {
		if cs.Results == nil || cs.C.E2E == 0 {
			continue
		}
		var ivs []interval
		inconclusive := false
		for _, v := range vws {
			if v.Call != cs || v.Ep.Role != "e2e" {
				continue
			}
			if v.Fold.Ambiguous > 0 || (isSerial(v) && hasLateOrDup(v)) {
				inconclusive = true
			}
			iv := interval{zero: true, actor: v.Ep.Actor}
			if d := v.Fold.LowestDest; d > 0 {
				ref := v.Fold.Hops[d]
				pr := v.Ep.Probes[ref.Probe]
				iv = interval{lo: ref.ArriveAt - pr.RelAt - time.Microsecond, hi: ref.ArriveAt - pr.CallAt + ref.PollObs + time.Microsecond, actor: v.Ep.Actor}
				ri.probe("e2e-answered")
			} else {
				ri.probe("e2e-unanswered")
			}
			ivs = append(ivs, iv)
		}
		if inconclusive {
			ri.Inconclusive = "e2e-ambiguous"
			continue
		}
		rtts := cs.Results.E2eProbe.RTTs
		if len(ivs) != len(rtts) {
			continue // counts are C15's business
		}
		ri.NonTrivial = true
		// exact bipartite matching of samples to probes (Kuhn's algorithm; n <= 50)
		var samples []time.Duration
		for _, r := range rtts {
			samples = append(samples, time.Duration(math.Round(r*1e6)))
		}
		fits := func(s time.Duration, iv interval) bool {
			return (iv.zero && s == 0) || (!iv.zero && s >= iv.lo && s <= iv.hi && s > 0)
		}
		matchOf := make([]int, len(ivs)) // interval -> sample
		for i := range matchOf {
			matchOf[i] = -1
		}
		var try func(si int, seen []bool) bool
		try = func(si int, seen []bool) bool {
			for j, iv := range ivs {
				if seen[j] || !fits(samples[si], iv) {
					continue
				}
				seen[j] = true
				if matchOf[j] < 0 || try(matchOf[j], seen) {
					matchOf[j] = si
					return true
				}
			}
			return false
		}
		for si := range samples {
			if !try(si, make([]bool, len(ivs))) {
				var want []string
				for _, iv := range ivs {
					if iv.zero {
						want = append(want, iv.actor+":0")
					} else {
						want = append(want, fmt.Sprintf("%s:[%v,%v]", iv.actor, iv.lo, iv.hi))
					}
				}
				vs = append(vs, Violation{Rule: "C05.e2e", Detail: fmt.Sprintf("e2e sample %v cannot be matched to any probe's destination RTT (samples %v, probes %v)", samples[si], samples, want), Facts: facts("protocol", cs.C.Protocol+"/"+cs.C.Method)})
				break
			}
		}
	}
	return vs
}

var _ = sim.Providers

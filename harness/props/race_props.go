package props

import (
	"fmt"
	"math/rand/v2"
	"strings"

	"verifharness/sim"
)

// ---------------------------------------------------------------------------------------------
// C14 (free-running mode; see sim/free.go)

type c14 struct{}

func init() { register(c14{}) }

func (c14) ID() string     { return "C14" }
func (c14) Level() string  { return "exploration" }
func (c14) QuickRuns() int { return 14400 }
func (c14) Rule() string {
	return "free-running mode: the real engines, drivers and multi-run aggregation run inside a synctest bubble (fake clock only) with NO scheduler goroutine, over an unsynchronised pre-seeded wire (replies derived from the latest probe's bytes, including replies for TTLs that are not probed yet and destination replies that stop the sender), in a binary built with -race at GOMAXPROCS 1/4/16; seeded mixes of every parallel-capable variant, 1-4 concurrent protocol-level runs, RunTraceroute with 1-3 runs + 0-3 end-to-end probes + reverse-DNS fan-out, a quarter of the protocol-level mixes with a WriteTo that fails in mid-run, and a free-running stress of the identifier allocator; any race-detector report with a frame in github.com/DataDog/datadog-traceroute is a violation keyed by its two access sites; non-trivial = sender and receiver goroutines overlapped (at least two probes sent and one reply read); distinct = distinct scenario shapes"
}
func (c14) Assumptions() []string {
	return []string{"the race detector is happens-before based: a pair is reported whenever both accesses execute without an ordering edge, so a replay in a fresh process reproduces it; it cannot see accesses that never execute in the explored runs", "the wire's only sender-to-receiver hand-off (latest probe bytes) happens inside //go:norace functions, so the harness adds no ordering between the two goroutines"}
}

func (c14) Gen(rng *rand.Rand, tier string, i int) *sim.Scenario {
	sc := &sim.Scenario{Property: "C14", Mode: "free"}
	sc.Knobs.RandSeed = int64(rng.Uint32())
	sc.Knobs.SetEchoIDBase, sc.Knobs.EchoIDBase = true, uint32(rng.IntN(70000))
	small := func(c *sim.Call) {
		c.MinTTL = pick(rng, 1, 1, 2)
		c.MaxTTL = c.MinTTL + between(rng, 1, 9)
		c.TimeoutMs = pick(rng, 30, 60, 120)
		c.DelayMs = pick(rng, 0, 1, 2)
		c.PollMs = pick(rng, 5, 10, 20)
	}
	switch k := i % 10; {
	case k < 5: // concurrent protocol-level runs
		n := pick(rng, 1, 1, 2, 3, 4)
		for j := 0; j < n; j++ {
			v := pick(rng, Variant{Entry: "icmp"}, Variant{Entry: "icmp", V6: true}, Variant{Entry: "udp"}, Variant{Entry: "udp", Loosen: true}, Variant{Entry: "udp", V6: true},
				Variant{Entry: "sack"}, Variant{Entry: "sack", Loosen: true}, Variant{Entry: "sack"}, Variant{Entry: "tcp"})
			c := sim.Call{Entry: v.Entry, Target: v.target(j), Loosen: v.Loosen, Port: 33434}
			small(&c)
			if v.Entry == "sack" {
				c.HandshakeTimeoutMs, c.FinTimeoutMs = 1000, 100
				sc.Listeners = append(sc.Listeners, sim.Listener{Addr: c.Target, Port: 33434, Permitted: true})
				c.Listener = len(sc.Listeners)
			}
			if v.Entry == "tcp" {
				c.TimeoutMs = 120
				c.MaxTTL = c.MinTTL + 2
			}
			sc.Calls = append(sc.Calls, c)
		}
		sc.Knobs.FreeTimestamps = chance(rng, 0.4) // SACK targets with TCP timestamps, their clock ticking
		if chance(rng, 0.25) {
			// a send fails in mid-run: the sender's error path runs while the receiver is looking up
			// replies to the probes that did leave
			sc.Knobs.FreeFailWrite = between(rng, 2, 5)
		}
	case k < 9: // whole requests
		p := pick(rng, "udp", "udp6", "icmp", "icmp6", "tcp-sack", "tcp-syn", "tcp-prefer")
		v := variantForRequest(p)
		c := sim.Call{Entry: "run_traceroute", Target: v.target(0), WantV6: v.V6, Queries: between(rng, 1, 3), E2E: between(rng, 0, 3), ReverseDNS: chance(rng, 0.6)}
		small(&c)
		c.TimeoutMs = 120
		switch p {
		case "udp", "udp6":
			c.Protocol = "udp"
		case "icmp", "icmp6":
			c.Protocol = "icmp"
		case "tcp-syn":
			c.Protocol, c.Method = "tcp", "syn"
			c.MaxTTL = c.MinTTL + 1
		case "tcp-sack":
			c.Protocol, c.Method = "tcp", "sack"
		case "tcp-prefer":
			c.Protocol, c.Method = "tcp", "prefer_sack"
		}
		if v.Entry == "sack" {
			sc.Listeners = append(sc.Listeners, sim.Listener{Addr: c.Target, Port: 33434, Permitted: true})
			c.Listener = 1
			c.TimeoutMs = 600
		}
		if chance(rng, 0.4) {
			// failing runs and probes: the error paths of the aggregation run concurrently too
			c.TimeoutMs, c.E2E = pick(rng, 0, 120), between(rng, 2, 12)
			if chance(rng, 0.5) {
				sc.Knobs.FreeFailAll = true
			} else {
				for k := 1; k <= c.Queries+c.E2E; k++ {
					if chance(rng, 0.6) {
						sc.Knobs.FreeFailNew = append(sc.Knobs.FreeFailNew, k)
					}
				}
			}
			if v.Entry == "sack" {
				c.TimeoutMs = 600
			}
		}
		sc.Calls = append(sc.Calls, c)
	default:
		sc.Calls = append(sc.Calls, sim.Call{Entry: "alloc_stress", Queries: between(rng, 2, 8), E2E: between(rng, 50, 400), MaxTTL: pick(rng, 1, 30, 255)})
	}
	return sc
}

func (c14) Check(out *sim.Outcome, ri *RunInfo) []Violation {
	var vs []Violation
	ri.Shape = fmt.Sprint(out.Sc.Calls)
	for _, c := range out.W.Calls {
		if c.Panic != "" {
			vs = append(vs, Violation{Rule: "crash", Detail: fmt.Sprintf("call %d (%s) panicked: %s", c.Idx, c.C.Entry, c.Panic), Facts: facts("entry", c.C.Entry)})
		}
		if c.Err == nil && (c.Run != nil || c.Results != nil || c.Alloc != nil) {
			ri.NonTrivial = true
		}
		// allocator stress: ranges handed out concurrently must be disjoint (fewer than 65536 live)
		if c.Alloc != nil {
			m := c.C.MaxTTL
			total := 0
			for _, g := range c.Alloc {
				total += len(g) * m
			}
			if total < 65536 {
				used := make([]bool, 65536)
				for _, g := range c.Alloc {
					for _, b := range g {
						for k := 0; k < m; k++ {
							id := (int(b) + k) & 0xffff
							if used[id] {
								vs = append(vs, Violation{Rule: "C14.alloc-overlap", Detail: fmt.Sprintf("identifier %d handed out twice by concurrent AllocPacketID(%d) callers", id, m), Facts: facts("site", "AllocPacketID")})
								return vs
							}
							used[id] = true
						}
					}
				}
				ri.probe("alloc-stress-disjoint")
			}
		}
	}
	if out.Deadlock != "" {
		vs = append(vs, Violation{Rule: "no-return", Detail: out.Deadlock, Facts: facts("entry", out.Sc.Calls[0].Entry)})
	}
	for _, r := range out.Races {
		if r.SiteA == "" && r.SiteB == "" {
			vs = append(vs, Violation{Rule: "harness-race", Detail: "race report without a frame of the code under test:\n" + r.Text})
			continue
		}
		a, b := r.SiteA, r.SiteB
		if a > b {
			a, b = b, a
		}
		vs = append(vs, Violation{Rule: "C14.race:" + a + "|" + b, Detail: "data race reported by the Go race detector:\n" + strings.TrimSpace(r.Text), Facts: facts("siteA", a, "siteB", b)})
	}
	return vs
}

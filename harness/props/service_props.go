package props

import (
	"context"
	"errors"
	"fmt"
	"math/rand/v2"
	"net/netip"
	"sort"
	"strings"
	"time"

	"verifharness/sim"
)

// ---------------------------------------------------------------------------------------------
// C08

type c08 struct{}

func init() { register(c08{}) }

func (c08) ID() string     { return "C08" }
func (c08) Level() string  { return "exploration" }
func (c08) QuickRuns() int { return 60000 }
func (c08) Rule() string {
	return "five seeded families measured on the virtual clock: (1) protocol-level runs of every variant under total silence, only irrelevant/malformed packets, bursts, and a steady noise stream faster than the poll interval that continues past every deadline; (2) both engines over a scripted driver with the caller's context cancelled at a seeded instant; (3) ICMP and SACK entry points cancelled at a seeded instant; (4) RunTraceroute with public-IP providers that stall before headers / after headers / mid body or answer slowly, and a resolver that blocks until its context ends; (5) the public-IP fetcher and reverse-DNS functions called directly under the same stalls; the elapsed virtual time of every call must stay within the bound computed from its parameters (engine bound of the property; + 5 providers x 2 s when the public address is requested; + one 5 s look-up time-out, however many of up to 40 addresses are resolved, when reverse DNS is requested; 0.5 s slack each), a cancelled engine run must return the cancellation error within poll + send delay; non-trivial = the call ran under a stall, flood or cancellation; distinct = distinct shapes"
}
func (c08) Assumptions() []string {
	return []string{"service bounds are deliberately about 2x the documented ones (public IP 30 s vs 5 x 2 s, reverse DNS 10 s vs 5 s): the oracle catches hangs, not constant tuning", "the SACK handshake read budget is a constant of the code, so generated handshake timeouts are >= 1 s", "processing cost of floods is not modelled (virtual time stands still while a goroutine computes)"}
}

func (c08) Gen(rng *rand.Rand, tier string, i int) *sim.Scenario {
	switch k := i % 20; {
	case k < 7: // silence / noise / flood
		// (look-alikes of genuine replies, one field off, count as irrelevant traffic too: they include
		// replies quoting a TTL that has not been probed yet)
		o := &wireOpts{variants: AllVariants, bigTTL: 0.03, silentProb: 0.9, noDest: 0.8, garbage: 1, adversarial: 2}
		wr := genWireRun(rng, o, 0, "c0")
		sc := scenarioFor("C08", rng, []*wireRun{wr})
		span := int64(wr.call.TimeoutMs) * 1000 * int64(1+wr.call.MaxTTL-wr.call.MinTTL)
		if wr.v.Entry != "tcp" {
			span = int64(wr.call.TimeoutMs)*1000 + int64(1+wr.call.MaxTTL-wr.call.MinTTL)*int64(wr.call.DelayMs)*1000
		}
		sc.Noise = genNoise(rng, 6, span, chance(rng, 0.5))
		sc.Note = "family=network"
		return sc
	case k == 7 && chance(rng, 0.5): // SACK handshake that never sees its own SYN-ACK, under a stream of other SYN-ACKs
		o := &wireOpts{variants: []Variant{{Entry: "sack"}, {Entry: "sack", Loosen: true}}, silentProb: 0.5, noDest: 0.5}
		wr := genWireRun(rng, o, 0, "c0")
		wr.lis.NoSynAck = true
		sc := scenarioFor("C08", rng, []*wireRun{wr})
		sc.Noise = []sim.Noise{{AtUs: int64(between(rng, 0, 400000)), Kind: fmt.Sprintf("synack:%s:%d", wr.call.Target, wr.call.Port), Seed: rng.Uint32(),
			EveryUs: int64(pick(rng, 1000, 40000, 200000, 450000)), UntilUs: 60000000}}
		sc.Note = "family=handshake-flood"
		return sc
	case k < 10: // engines cancelled
		sc := genEngineScenario("C08", rng, engineOpts{serial: chance(rng, 0.5), multiDest: true, late: true, retryable: true})
		c := &sc.Calls[0]
		total := int64(c.TimeoutMs)*1000 + int64(c.MaxTTL-c.MinTTL+1)*int64(c.DelayMs)*1000
		if c.Entry == "engine_serial" {
			total = int64(c.MaxTTL-c.MinTTL+1) * int64(max(c.TimeoutMs, c.DelayMs)) * 1000
		}
		c.CancelAtUs = int64(between(rng, 1, int(total+total/4)))
		sc.Note = "family=engine-cancel"
		return sc
	case k < 13: // entry points cancelled
		o := &wireOpts{variants: []Variant{{Entry: "icmp"}, {Entry: "icmp", V6: true}, {Entry: "sack"}, {Entry: "sack", Loosen: true}}, silentProb: 0.5, noDest: 0.6}
		wr := genWireRun(rng, o, 0, "c0")
		total := int64(wr.call.TimeoutMs)*1000 + int64(wr.call.MaxTTL-wr.call.MinTTL+1)*int64(wr.call.DelayMs)*1000
		wr.call.CancelAtUs = int64(between(rng, 1, int(total+total/4)))
		sc := scenarioFor("C08", rng, []*wireRun{wr})
		sc.Note = "family=entry-cancel"
		return sc
	case k < 17: // whole requests with stalling services
		o := requestOpts{queriesMin: 1, queriesMax: 2, e2eMax: 2, publicIP: 0.8, reverseDNS: 0.6, silentProb: 0.4}
		sc := genRequestScenario("C08", rng, o)
		c := &sc.Calls[0]
		if c.Protocol == "tcp" && (c.Method == "sack" || c.Method == "prefer_sack") {
			c.TimeoutMs = 1000
		}
		if c.PublicIP {
			genStallProviders(rng, sc, false)
		}
		if c.ReverseDNS {
			genStallDNS(rng, sc)
		}
		sc.Note = "family=request"
		return sc
	default: // service functions called directly
		sc := &sim.Scenario{Property: "C08", Note: "family=service"}
		switch rng.IntN(3) {
		case 0:
			sc.Calls = []sim.Call{{Entry: "get_public_ip", RetryMs: pick(rng, 10, 100, 500)}}
			genStallProviders(rng, sc, true)
		case 1:
			sc.Calls = []sim.Call{{Entry: "fetcher_get_ip", Repeat: between(rng, 1, 2), GapUs: int64(between(rng, 0, 3000000))}}
			genStallProviders(rng, sc, false)
		default:
			n := pick(rng, between(rng, 1, 6), between(rng, 5, 16), between(rng, 17, 40))
			var addrs []string
			for a := 0; a < n; a++ {
				addrs = append(addrs, fmt.Sprintf("198.18.%d.%d", a, 1+rng.IntN(200)))
			}
			sc.Calls = []sim.Call{{Entry: "reverse_dns", Addrs: addrs}}
			for _, a := range addrs {
				sc.DNS = append(sc.DNS, sim.DNSPlan{Addr: a, Script: []string{pick(rng, "stall", "stall", "slow:4000000:1", "slow:6000000:1", "names:1", dnsErr(rng), "slow:100:2")}})
			}
		}
		sc.Tape = tape(rng, 16)
		return sc
	}
}

// genStallProviders scripts the providers with stalls; retryable (transport-level) failures are
// only used when the caller's back-off is deterministic.
func genStallProviders(rng *rand.Rand, sc *sim.Scenario, retryable bool) {
	sc.HTTP = nil
	for p := 0; p < 5; p++ {
		opts := []string{"stallBeforeHeaders", "stallAfterHeaders", "slowBody:1500000:203.0.113.5", "slowBody:2500000:203.0.113.5", "status:404:no", "status:200:203.0.113.9", "status:200:nonsense"}
		if retryable {
			opts = append(opts, "refuse", "closeEarly", "garbage")
		}
		s := pick(rng, opts...)
		script := []string{s}
		if retryable && (s == "refuse" || s == "closeEarly" || s == "garbage") {
			// a provider that first fails fast and then hangs: the budget is per provider, not per attempt
			script = []string{s, pick(rng, append(opts, "stallBeforeHeaders", "stallAfterHeaders", "stallBeforeHeaders")...), pick(rng, opts...)}
		}
		sc.HTTP = append(sc.HTTP, sim.HTTPPlan{Provider: p, Script: script})
	}
}

func genStallDNS(rng *rand.Rand, sc *sim.Scenario) {
	seen := map[string]bool{}
	add := func(a string) {
		if a == "" || seen[a] {
			return
		}
		seen[a] = true
		sc.DNS = append(sc.DNS, sim.DNSPlan{Addr: dnsKey(mustParse(a)), Script: []string{pick(rng, "stall", "slow:4500000:1", "names:1", dnsErr(rng), "empty")}})
	}
	for _, f := range sc.Flows {
		for _, h := range f.Hops {
			add(h.From)
		}
	}
	add(bareTarget(sc.Calls[0].Target))
}

// The property's bound includes the lookup timeouts as additive terms: one reverse-DNS timeout (5 s,
// the property's anchor) however many addresses are resolved, and the per-provider budget (2 s) times
// the five providers for the public address. Half a second of slack each.
const (
	lookupBound   = 5*time.Second + 500*time.Millisecond
	publicIPBound = 5*2*time.Second + 500*time.Millisecond
)

func ms(n int) time.Duration { return time.Duration(n) * time.Millisecond }

// runBound is the bound the property gives for one protocol-level run.
func runBound(proto string, c *sim.Call, nTTL int, viaRunner bool) time.Duration {
	T, D := ms(c.TimeoutMs), ms(c.DelayMs)
	poll := ms(c.PollMs)
	if poll == 0 || viaRunner {
		poll = ms(100)
	}
	n := time.Duration(nTTL)
	switch proto {
	case "tcp":
		per := T + poll
		if D > per {
			per = D
		}
		return n * per
	case "sack":
		hs, fin := ms(c.HandshakeTimeoutMs), ms(c.FinTimeoutMs)
		if viaRunner {
			hs, fin, D = T, 0, ms(10)
			// dial (<= handshake timeout) + handshake capture (<= handshake timeout, generated >= 1 s)
			return hs + hs + T + n*D + poll
		}
		return hs + fin + T + n*D + poll
	}
	return T + n*D + poll
}

func (c08) Check(out *sim.Outcome, ri *RunInfo) []Violation {
	vs := crashViolations(out)
	ri.Shape = shapeOf(out.Sc) + fmt.Sprint(out.Sc.HTTP, out.Sc.DNS, len(out.Sc.Noise))
	family := noteField(out.Sc.Note, "family")
	for _, cs := range out.W.Calls {
		if !cs.Finished {
			continue
		}
		c := cs.C
		elapsed := cs.EndAt - cs.StartAt
		n := c.MaxTTL - c.MinTTL + 1
		var bound time.Duration
		label := c.Entry
		switch c.Entry {
		case "icmp", "udp", "tcp", "sack":
			bound = runBound(c.Entry, c, n, false)
		case "engine_parallel":
			bound = ms(c.TimeoutMs) + time.Duration(n)*ms(c.DelayMs) + ms(c.PollMs)
		case "engine_serial":
			per := ms(c.TimeoutMs) + ms(c.PollMs)
			if ms(c.DelayMs) > per {
				per = ms(c.DelayMs)
			}
			bound = time.Duration(n) * per
		case "run_traceroute", "http_handler":
			proto := c.Protocol
			rb := runBound(proto, c, n, true)
			if proto == "tcp" {
				switch c.Method {
				case "sack":
					rb = runBound("sack", c, n, true)
				case "prefer_sack":
					rb = runBound("sack", c, n, true) + runBound("tcp", c, n, true)
				}
			}
			eb := runBound(proto, c, 1, true)
			if eb > rb {
				rb = eb
			}
			var stagger time.Duration
			if c.E2E > 1 {
				d := time.Duration(c.MaxTTL) * ms(c.TimeoutMs) / time.Duration(c.E2E)
				if d > time.Second {
					d = time.Second
				}
				stagger = time.Duration(c.E2E-1) * d
			}
			bound = stagger + rb
			if c.PublicIP {
				bound += publicIPBound
			}
			if c.ReverseDNS {
				bound += lookupBound
			}
		case "get_public_ip", "fetcher_get_ip":
			bound = publicIPBound*time.Duration(max(c.Repeat, 1)) + time.Duration(max(c.Repeat, 1))*time.Duration(c.GapUs)*time.Microsecond
		case "reverse_dns":
			bound = lookupBound
		default:
			continue
		}
		if c.Entry == "get_public_ip" || c.Entry == "fetcher_get_ip" {
			// the budget is per provider: from the first connection to a provider until the client has
			// let go of the last one, at most the 2 s of the property's anchor (+ slack)
			first, last := map[int]time.Duration{}, map[int]time.Duration{}
			for _, hc := range out.W.HTTPConns() {
				if hc.Provider < 0 {
					continue
				}
				if _, ok := first[hc.Provider]; !ok || hc.DialAt < first[hc.Provider] {
					first[hc.Provider] = hc.DialAt
				}
				end := hc.ClosedAt
				if end < hc.DialAt {
					end = hc.DialAt
				}
				if end > last[hc.Provider] {
					last[hc.Provider] = end
				}
			}
			if max(c.Repeat, 1) == 1 {
				for p, f := range first {
					if d := last[p] - f; d > 2*time.Second+500*time.Millisecond {
						vs = append(vs, Violation{Rule: "C08.bound:provider", Detail: fmt.Sprintf("provider %d kept the call busy for %v of virtual time (first connection at %v, last one released at %v), the per-provider budget is 2 s", p, d, f, last[p]),
							Facts: facts("entry", c.Entry, "family", family)})
					}
				}
			}
		}
		bound += time.Millisecond
		stalled := len(out.Sc.HTTP) > 0 || len(out.Sc.DNS) > 0 || len(out.Sc.Noise) > 0 || c.CancelAtUs > 0
		if stalled {
			ri.NonTrivial = true
		}
		if out.W.Stats["pkt.noise"] > 100 {
			ri.probe("flood")
		}
		if elapsed > bound {
			vs = append(vs, Violation{Rule: "C08.bound:" + label, Detail: fmt.Sprintf("call %d (%s %s/%s ttl %d..%d timeout %dms delay %dms) took %v of virtual time, bound from its parameters is %v", cs.Idx, c.Entry, c.Protocol, c.Method, c.MinTTL, c.MaxTTL, c.TimeoutMs, c.DelayMs, elapsed, bound),
				Facts: facts("entry", c.Entry, "family", family)})
		}
		// prompt cancellation
		if cs.CancelledAt > 0 && cs.CancelledAt < cs.EndAt {
			enginePhase := c.Entry == "engine_parallel" || c.Entry == "engine_serial" || c.Entry == "icmp"
			if c.Entry == "sack" {
				for _, ep := range out.W.Eps {
					if len(ep.Probes) > 0 && ep.Probes[0].CallAt <= cs.CancelledAt {
						enginePhase = true
					}
				}
			}
			if enginePhase {
				ri.probe("cancelled-in-engine-phase")
				poll := ms(c.PollMs)
				if poll == 0 {
					poll = ms(100)
				}
				lim := poll + ms(c.DelayMs) + time.Millisecond
				if late := cs.EndAt - cs.CancelledAt; late > lim {
					vs = append(vs, Violation{Rule: "C08.cancel", Detail: fmt.Sprintf("call %d (%s) returned %v after its context was cancelled; poll + send delay = %v", cs.Idx, c.Entry, late, lim-time.Millisecond), Facts: facts("entry", c.Entry, "what", "late")})
				}
				if cs.Err == nil || !errors.Is(cs.Err, context.Canceled) {
					// a destination found and everything sent before the cancellation may legitimately still...
					// no: the property says a cancelled run returns the cancellation error
					vs = append(vs, Violation{Rule: "C08.cancel", Detail: fmt.Sprintf("call %d (%s) was cancelled at %v while running (returned at %v) but did not return the cancellation error: %v", cs.Idx, c.Entry, cs.CancelledAt, cs.EndAt, cs.Err), Facts: facts("entry", c.Entry, "what", "error")})
				}
			}
		}
	}
	for _, k := range []string{"fault.dns.stall.ctxdone", "fault.dns.slow.ctxdone", "http.stallBeforeHeaders", "http.stallAfterHeaders", "http.slowBody"} {
		if out.W.Stats[k] > 0 {
			ri.probe(strings.TrimPrefix(k, "fault."))
		}
	}
	return vs
}

// ---------------------------------------------------------------------------------------------
// C18

type c18 struct{}

func init() { register(c18{}) }

func (c18) ID() string     { return "C18" }
func (c18) Level() string  { return "exploration" }
func (c18) QuickRuns() int { return 300000 }
func (c18) Rule() string {
	return "three seeded families: (a) Results.EnrichWithReverseDns over hop multisets with duplicates, unanswered hops, IPv4/IPv6/IPv4-mapped addresses, the scripted resolver answering per call with unique names, empty lists, errors or slowly, the choice tape ordering the concurrent lookups; (b) sequences of GetReverseDns / PublicIPFetcher.GetIP calls by 1-3 concurrent callers separated by virtual sleeps around the 1 h / 2 h expiries; (c) GetPublicIP with per-provider scripts (any status code of the 2xx/3xx/4xx/5xx classes, valid/invalid bodies, transport errors, stalls; resolver failures of the generic, not-found, time-out and temporary classes) and a deterministic back-off policy; checked: names on a hop are a list the resolver returned for that very address; a stored success is returned without re-querying until expiry and failures are never stored; providers are contacted in list order, iteration stops at the first valid address, a 4xx or invalid body gets exactly one request, retries stay inside the provider's budget; non-trivial = a lookup failed, a cache entry was reused or expired, or more than one provider was contacted; distinct = distinct shapes"
}
func (c18) Assumptions() []string {
	return []string{"the provider order is specification data of the harness (icanhazip, ipinfo, checkip.amazonaws, api.ipify, whatismyip.akamai)", "concurrent misses may both query (the cache is not required to be an atomic get-or-compute); porcupine is therefore not used, the history rule of the property is checked directly"}
}

func (c18) Gen(rng *rand.Rand, tier string, i int) *sim.Scenario {
	sc := &sim.Scenario{Property: "C18", Tape: tape(rng, 48)}
	switch i % 3 {
	case 0: // enrichment
		pool := []string{"198.18.0.1", "198.18.0.2", "10.1.2.3", "2001:db8:aa::1", "2001:db8:aa::2", "::ffff:198.18.0.1", "203.0.113.77", "192.0.2.55"}
		// ... and addresses of every class a hop or a target can have (the resolver is asked for whatever
		// address the hop carries; which classes "deserve" a PTR query is not the library's call)
		classes := []string{"127.0.0.1", "127.8.9.10", "::1", "169.254.0.1", "169.254.200.7", "fe80::1", "fe80::abcd:1234", "224.0.0.1", "239.1.2.3", "ff02::1", "ff0e::99",
			"255.255.255.255", "0.0.0.0", "::", "100.64.0.1", "100.127.255.254", "fd00::1", "fc00:1::2", "172.16.0.1", "192.168.255.255", "192.0.0.8", "198.51.100.1", "240.0.0.1", "64:ff9b::c000:201",
			"2002:c000:201::1", "2001::1", "::ffff:10.0.0.1", "::ffff:127.0.0.1", "1.1.1.1", "8.8.8.8", "2606:4700::1111"}
		for k := between(rng, 0, 4); k > 0; k-- {
			a := pick(rng, classes...)
			dup := false
			for _, p := range pool {
				dup = dup || dnsKey(mustParse(p)) == dnsKey(mustParse(a))
			}
			if !dup {
				pool[rng.IntN(len(pool))] = a
			}
		}
		var hops []sim.Hop
		maxHops, answered := 9, 0.75
		if chance(rng, 0.08) {
			maxHops, answered = 40, 0.3 // a long path through mostly silent routers
		}
		for t := 1; t <= between(rng, 1, maxHops); t++ {
			h := sim.Hop{TTL: t}
			if chance(rng, answered) {
				h.Addr = pick(rng, pool...)
			}
			hops = append(hops, h)
		}
		c := sim.Call{Entry: "enrich", Target: pick(rng, pool...), Hops: hops}
		for n := pick(rng, 0, 0, 1, 2); n > 0; n-- {
			// more runs in the document, each towards its own destination address
			c.Addrs = append(c.Addrs, pick(rng, pool...))
		}
		sc.Calls = []sim.Call{c}
		for _, a := range pool {
			sc.DNS = append(sc.DNS, sim.DNSPlan{Addr: dnsKey(mustParse(a)), Script: []string{pick(rng, "names:1", "names:2", "names:3", "dupnames:1", "dupnames:2", "empty", dnsErr(rng), "slow:200000:1", "slow:6000000:1", "stall"), pick(rng, "names:1", dnsErr(rng))}})
		}
		sc.Note = "family=enrich"
	case 1: // cache histories
		if i%900 == 1 {
			// many live entries at once: a stored success is served until ITS expiry, however many others exist
			n := between(rng, 900, 1500)
			var addrs []string
			for a := 0; a < n; a++ {
				addrs = append(addrs, fmt.Sprintf("198.19.%d.%d", a/250, 1+a%250))
			}
			sc.Calls = []sim.Call{{Entry: "reverse_dns", Addrs: addrs, Repeat: 2, GapUs: int64(pick(rng, 1, 60, 1800)) * 1000000}}
			sc.DNS = []sim.DNSPlan{{Addr: "*", Script: []string{"names:1"}}}
			sc.Note = "family=cache-many"
			sc.Tape = nil
			return sc
		}
		if chance(rng, 0.5) {
			addr := "198.18.7.7"
			for k := 0; k < between(rng, 1, 3); k++ {
				sc.Calls = append(sc.Calls, sim.Call{Entry: "reverse_dns", Addrs: []string{addr}, Repeat: between(rng, 2, 5),
					GapUs: int64(pick(rng, 1, 60, 1799, 3599, 3600, 3601, 4000)) * 1000000, StartUs: int64(pick(rng, 0, 0, 500, 1000000))})
			}
			var script []string
			for k := 0; k < 12; k++ {
				script = append(script, pick(rng, "names:1", "names:2", "dupnames:1", "dupnames:2", dnsErr(rng), "slow:300000:1", "empty", "names:1"))
			}
			sc.DNS = []sim.DNSPlan{{Addr: addr, Script: script}}
			sc.Note = "family=cache-dns"
		} else {
			for k := 0; k < between(rng, 1, 2); k++ {
				sc.Calls = append(sc.Calls, sim.Call{Entry: "fetcher_get_ip", Repeat: between(rng, 2, 4),
					GapUs: int64(pick(rng, 1, 3599, 7199, 7200, 7201, 9000)) * 1000000, StartUs: int64(pick(rng, 0, 0, 700))})
			}
			for p := 0; p < 5; p++ {
				var script []string
				for k := 0; k < 8; k++ {
					script = append(script, pick(rng, fmt.Sprintf("status:200:203.0.113.%d", 1+p*10+k), fmt.Sprintf("status:%d:no", clientStatus(rng)), "status:200:junk", fmt.Sprintf("status:200:203.0.113.%d", 100+p*10+k), fmt.Sprintf("status:200:2001:db8:%x::%x\n", 1+p, 1+k), fmt.Sprintf("status:200:::ffff:203.0.113.%d", 200+k)))
				}
				sc.HTTP = append(sc.HTTP, sim.HTTPPlan{Provider: p, Script: script})
			}
			sc.Note = "family=cache-ip"
		}
	default: // provider iteration
		sc.Calls = []sim.Call{{Entry: "get_public_ip", RetryMs: pick(rng, 10, 50, 200, 500)}}
		for p := 0; p < 5; p++ {
			var script []string
			for k := 0; k < 10; k++ {
				script = append(script, pick(rng, "refuse", "closeEarly", fmt.Sprintf("status:%d:oops", serverStatus(rng)), fmt.Sprintf("status:%d:", serverStatus(rng)), fmt.Sprintf("status:200:198.51.100.%d", 1+p), fmt.Sprintf("status:%d:198.51.100.%d", serverStatus(rng), 50+p),
					fmt.Sprintf("status:%d:nope", clientStatus(rng)), fmt.Sprintf("splitBody:%d:%d:198.51.100.%d\n", between(rng, 1, 12), pick(rng, 1, 50, 3000), 101+p), fmt.Sprintf("splitBody:%d:%d:%s198.51.100.%d", between(rng, 1, 90), pick(rng, 1, 50), strings.Repeat(" ", between(rng, 0, 80)), 121+p), fmt.Sprintf("status:200:\n\t 198.51.100.%d \r\n", 1+p), fmt.Sprintf("gzip:198.51.100.%d\n", 171+p), fmt.Sprintf("status:200:2001:DB8::%X", 10+p), "status:200:1.2.3", "status:200:256.1.1.1", "status:200:<html><body>198.51.100.9</body></html>", fmt.Sprintf("status:203:198.51.100.%d", 1+p), fmt.Sprintf("status:%d:198.51.100.%d", clientStatus(rng), 150+p), "status:200:not-an-ip", "status:200:", fmt.Sprintf("status:200:  2001:db8::%d \n", 1+p), "stallBeforeHeaders", "status:302:moved"))
			}
			sc.HTTP = append(sc.HTTP, sim.HTTPPlan{Provider: p, Script: script})
		}
		if chance(rng, 0.12) {
			// the first k providers use up their whole budget (they hang, or fail retryably over and over);
			// the next one answers: it must still be asked, however much time the others took
			k := between(rng, 1, 4)
			for p := 0; p < k; p++ {
				if chance(rng, 0.7) {
					sc.HTTP[p].Script = []string{pick(rng, "stallBeforeHeaders", "stallAfterHeaders")}
				} else {
					for j := range sc.HTTP[p].Script {
						sc.HTTP[p].Script[j] = pick(rng, "refuse", "closeEarly", fmt.Sprintf("status:%d:busy", serverStatus(rng)))
					}
				}
			}
			sc.HTTP[k].Script = []string{fmt.Sprintf("status:200:198.51.100.%d\n", 201+k)}
		}
		sc.Note = "family=providers"
	}
	return sc
}

// dnsErr draws one of the failure classes a resolver reports (generic, NXDOMAIN, time-out, temporary).
func dnsErr(rng *rand.Rand) string {
	return pick(rng, "error", "error:notfound", "error:notfound", "error:timeout", "error:temporary")
}

// clientStatus draws any status of the 4xx class (the well-known ones more often), serverStatus any
// of the 5xx class: the property speaks of classes, not of particular codes.
func clientStatus(rng *rand.Rand) int {
	if chance(rng, 0.5) {
		return pick(rng, 400, 401, 403, 404, 405, 408, 409, 410, 418, 421, 425, 429, 431, 451, 499)
	}
	return 400 + rng.IntN(100)
}

func serverStatus(rng *rand.Rand) int {
	if chance(rng, 0.5) {
		return pick(rng, 500, 501, 502, 503, 504, 507, 511, 599)
	}
	return 500 + rng.IntN(100)
}

func scriptOutcome(s string) (kind string, ip string) {
	base, args := splitFirst(s)
	switch base {
	case "status":
		code, body := splitFirst(args)
		var n int
		fmt.Sscanf(code, "%d", &n)
		if n >= 400 && n < 500 {
			return "permanent", ""
		}
		a, err := netip.ParseAddr(strings.TrimSpace(body))
		if err != nil {
			return "permanent", "" // invalid body
		}
		return "ok", a.String()
	case "gzip":
		a, err := netip.ParseAddr(strings.TrimSpace(args))
		if err != nil {
			return "permanent", ""
		}
		return "ok", a.String()
	case "splitBody":
		// the same answer as status 200 with the whole body: how a body is cut into segments is not the provider's answer
		parts := strings.SplitN(args, ":", 3)
		if len(parts) < 3 {
			return "permanent", ""
		}
		a, err := netip.ParseAddr(strings.TrimSpace(parts[2]))
		if err != nil {
			return "permanent", ""
		}
		return "ok", a.String()
	case "refuse", "closeEarly", "garbage":
		return "retryable", ""
	case "stallBeforeHeaders", "stallAfterHeaders":
		return "stall", ""
	case "slowBody":
		return "slow", ""
	}
	return "retryable", ""
}

func (c18) Check(out *sim.Outcome, ri *RunInfo) []Violation {
	vs := crashViolations(out)
	family := noteField(out.Sc.Note, "family")
	ri.Shape = fmt.Sprint(out.Sc.Calls, out.Sc.DNS, out.Sc.HTTP)
	w := out.W
	switch family {
	case "enrich":
		cs := w.Calls[0]
		if cs.Enriched == nil {
			return vs
		}
		byAddr := map[string][]*sim.DNSCall{}
		for _, d := range w.DNSCalls() {
			if d.Err == context.Canceled.Error() && cs.CancelledAt == 0 {
				// nobody cancelled this call, and a look-up's own limit ends it with "deadline exceeded":
				// a look-up that was abandoned half-way was abandoned because of something else in the
				// call (another look-up's failure), which is what "never alters the rest" rules out
				vs = append(vs, Violation{Rule: "C18.lookup-abandoned", Detail: fmt.Sprintf("the look-up for %s (resolver script %q) was cancelled %v after it started although nobody cancelled the call: a failure elsewhere in the call took it down", d.Addr, d.Script, d.RetAt-d.CallAt), Facts: facts("family", family)})
				break
			}
		}
		for _, d := range w.DNSCalls() {
			byAddr[d.Addr] = append(byAddr[d.Addr], d)
			if d.Err != "" {
				ri.NonTrivial = true
				ri.probe("lookup-failed")
			}
		}
		checkNames := func(what string, addr netip.Addr, names []string) {
			calls := byAddr[dnsKey(addr)]
			anyOK := false
			match := false
			for _, d := range calls {
				if d.Err != "" && len(names) == 0 {
					match = true // one of the concurrent lookups for this address failed: empty names are its outcome
				}
				if d.Err == "" {
					anyOK = true
					if fmt.Sprint(d.Names) == fmt.Sprint(names) || (len(d.Names) == 0 && len(names) == 0) {
						match = true
					}
				}
			}
			if len(calls) == 0 && len(names) == 0 {
				// the resolver was never asked about this address (the cache is empty when the call starts):
				// "the names the resolver returned for that address" are then missing whenever it has some
				for _, pl := range out.Sc.DNS {
					if pl.Addr != dnsKey(addr) || len(pl.Script) == 0 {
						continue
					}
					if b, _, _ := strings.Cut(pl.Script[0], ":"); b == "names" || b == "dupnames" || b == "slow" {
						vs = append(vs, Violation{Rule: "C18.not-resolved", Detail: fmt.Sprintf("%s %s carries no names and the resolver was never asked about it; it answers %q for that address", what, addr, pl.Script[0]), Facts: facts("family", family)})
					}
					break
				}
			}
			switch {
			case !anyOK && len(names) > 0:
				vs = append(vs, Violation{Rule: "C18.misattributed", Detail: fmt.Sprintf("%s %s carries names %v but every lookup for that address failed", what, addr, names), Facts: facts("family", family)})
			case anyOK && !match:
				var got []string
				for _, d := range calls {
					got = append(got, fmt.Sprintf("%v(err=%q)", d.Names, d.Err))
				}
				vs = append(vs, Violation{Rule: "C18.misattributed", Detail: fmt.Sprintf("%s %s carries names %v, the resolver returned %v for that address", what, addr, names, got), Facts: facts("family", family)})
			}
		}
		run := cs.Enriched.Traceroute.Runs[0]
		if len(run.Hops) != len(cs.C.Hops) {
			vs = append(vs, Violation{Rule: "C18.enrich-fatal", Detail: fmt.Sprintf("enrichment changed the hop count from %d to %d", len(cs.C.Hops), len(run.Hops)), Facts: facts("family", family)})
			return vs
		}
		for k, h := range run.Hops {
			in := cs.C.Hops[k]
			if h.TTL != in.TTL {
				vs = append(vs, Violation{Rule: "C18.enrich-fatal", Detail: fmt.Sprintf("hop %d: ttl changed from %d to %d", k, in.TTL, h.TTL), Facts: facts("family", family)})
			}
			if in.Addr == "" {
				if len(h.ReverseDns) > 0 || len(h.IPAddress) > 0 {
					vs = append(vs, Violation{Rule: "C18.misattributed", Detail: fmt.Sprintf("unanswered hop ttl %d carries %v %v", h.TTL, h.IPAddress, h.ReverseDns), Facts: facts("family", family)})
				}
				continue
			}
			a := mustParse(in.Addr)
			got, _ := netip.AddrFromSlice(h.IPAddress)
			if got.Unmap() != a.Unmap() {
				vs = append(vs, Violation{Rule: "C18.enrich-fatal", Detail: fmt.Sprintf("hop ttl %d: address changed from %s to %s", h.TTL, a, got), Facts: facts("family", family)})
				continue
			}
			checkNames(fmt.Sprintf("hop ttl %d", h.TTL), a, h.ReverseDns)
		}
		// a look-up that succeeded is not undone by another look-up for the same address that failed: some
		// hop or destination carrying the address shows the names (whichever occurrence each look-up served)
		shown := map[string]map[string]bool{}
		note := func(a netip.Addr, names []string) {
			k := dnsKey(a)
			if shown[k] == nil {
				shown[k] = map[string]bool{}
			}
			shown[k][fmt.Sprint(names)] = true
		}
		for _, r := range cs.Enriched.Traceroute.Runs {
			for _, h := range r.Hops {
				if a, ok := netip.AddrFromSlice(h.IPAddress); ok {
					note(a, h.ReverseDns)
				}
			}
			if a, ok := netip.AddrFromSlice(r.Destination.IPAddress); ok {
				note(a, r.Destination.ReverseDns)
			}
		}
		for k, calls := range byAddr {
			if shown[k] == nil {
				continue
			}
			var okLists []string
			any := false
			for _, d := range calls {
				if d.Err == "" && len(d.Names) == 0 {
					any = true // the resolver also answered "no names" for this address: an empty hop is one of its answers
				}
				if d.Err == "" && len(d.Names) > 0 {
					okLists = append(okLists, fmt.Sprint(d.Names))
					any = any || shown[k][fmt.Sprint(d.Names)]
				}
			}
			if len(okLists) > 0 && !any {
				vs = append(vs, Violation{Rule: "C18.lookup-undone", Detail: fmt.Sprintf("the resolver answered %v for %s during this call, but no hop or destination with that address carries the names (what they carry: %v): a look-up that failed wiped out one that succeeded", okLists, k, shown[k]), Facts: facts("family", family)})
				break
			}
		}
		if cs.C.Target != "" {
			checkNames("destination", mustParse(cs.C.Target), run.Destination.ReverseDns)
		}
		for k, d := range cs.C.Addrs {
			if k+1 < len(cs.Enriched.Traceroute.Runs) {
				ri.probe("several-runs-in-document")
				r2 := cs.Enriched.Traceroute.Runs[k+1]
				checkNames(fmt.Sprintf("destination of run %d", k+2), mustParse(d), r2.Destination.ReverseDns)
				for j, h := range r2.Hops {
					if j < len(cs.C.Hops) && cs.C.Hops[j].Addr != "" {
						checkNames(fmt.Sprintf("run %d hop ttl %d", k+2, h.TTL), mustParse(cs.C.Hops[j].Addr), h.ReverseDns)
					}
				}
			}
		}
	case "cache-many":
		cs := w.Calls[0]
		if len(cs.Iters) < 2 {
			return vs
		}
		ri.NonTrivial = true
		ri.probe(fmt.Sprintf("live-entries>=%d", len(cs.C.Addrs)/500*500))
		first, second := cs.Iters[0], cs.Iters[1]
		if second.DNSCallsDuring > 0 {
			vs = append(vs, Violation{Rule: "C18.requery", Detail: fmt.Sprintf("%d addresses were resolved and stored, %v later (expiry 1 h) looking them up again sent %d queries to the resolver", len(cs.C.Addrs), time.Duration(cs.C.GapUs)*time.Microsecond, second.DNSCallsDuring), Facts: facts("family", family)})
		}
		for a, n1 := range first.Names {
			if fmt.Sprint(second.Names[a]) != fmt.Sprint(n1) {
				vs = append(vs, Violation{Rule: "C18.stale", Detail: fmt.Sprintf("address %s: first look-up gave %v, the cached second one %v", a, n1, second.Names[a]), Facts: facts("family", family)})
				break
			}
		}
	case "cache-dns", "cache-ip":
		ttl := time.Hour
		if family == "cache-ip" {
			ttl = 2 * time.Hour
		}
		// successful stores: (value, completed at)
		type store struct {
			val string
			at  time.Duration
		}
		var stores []store
		type fetch struct {
			start, end time.Duration
			ok         bool
			val        string
			caller     string
		}
		var fetches []fetch
		if family == "cache-dns" {
			for _, d := range w.DNSCalls() {
				f := fetch{start: d.CallAt, end: d.RetAt, ok: d.Err == "", val: fmt.Sprint(d.Names), caller: d.Caller}
				fetches = append(fetches, f)
				if f.ok {
					stores = append(stores, store{f.val, d.RetAt})
				}
			}
		}
		if family == "cache-ip" {
			// public IP: a computation completes when an iteration (of any caller) that asked a provider returned a value
			for _, cs2 := range w.Calls {
				for _, it2 := range cs2.Iters {
					if it2.Err == nil && it2.IP != "" && it2.DialsDuring > 0 {
						stores = append(stores, store{it2.IP, it2.EndAt})
					}
				}
			}
		}
		// Which successful computations are certainly in the cache? One that completes while an earlier
		// entry is still live may replace it (fresh expiry) or leave it alone (old expiry): both keep the
		// property. Only a computation that completes on an empty or expired cache is a guaranteed store.
		sort.SliceStable(stores, func(i, j int) bool { return stores[i].at < stores[j].at })
		var guaranteed []store
		for _, s := range stores {
			if n := len(guaranteed); n > 0 && guaranteed[n-1].at+ttl >= s.at {
				continue
			}
			guaranteed = append(guaranteed, s)
		}
		for _, cs := range w.Calls {
			for k, it := range cs.Iters {
				val := it.IP
				if family == "cache-dns" {
					val = fmt.Sprint(it.Names[cs.C.Addrs[0]])
					if it.Err != nil {
						val = ""
					}
				}
				// a fresh stored success exists for the whole iteration?
				var fresh []string
				// acceptable: every success stored no later than the moment the call returned and not yet
				// expired then (a concurrent caller may legitimately have replaced the entry meanwhile)
				var acceptable []string
				for _, s := range guaranteed {
					if s.at < it.StartAt && s.at+ttl > it.EndAt {
						fresh = append(fresh, s.val)
					}
				}
				for _, s := range stores {
					if s.at <= it.EndAt && s.at+ttl >= it.StartAt {
						acceptable = append(acceptable, s.val)
					}
				}
				queried := it.DNSCallsDuring
				if family == "cache-ip" {
					queried = it.DialsDuring
				}
				who := fmt.Sprintf("call %d iteration %d [%v..%v]", cs.Idx, k+1, it.StartAt, it.EndAt)
				if family == "cache-ip" && it.Err == nil && queried > 0 {
					// what a fetch returns is the address a provider answered during it, whatever its family
					answered := map[string]bool{}
					for _, hc := range w.HTTPConns() {
						if hc.DialAt >= it.StartAt && hc.DialAt <= it.EndAt {
							if kind, ip := scriptOutcome(hc.Script); kind == "ok" {
								answered[mustParse(ip).Unmap().String()] = true
							}
						}
					}
					got, err := netip.ParseAddr(it.IP)
					if err != nil || !answered[got.Unmap().String()] {
						vs = append(vs, Violation{Rule: "C18.provider-order", Detail: fmt.Sprintf("%s fetched %q, the providers asked during it answered %v", who, it.IP, answered), Facts: facts("family", family, "kind", "fetched-value")})
					}
				}
				if len(fresh) > 0 {
					ri.NonTrivial = true
					ri.probe("fresh-entry-available")
					if queried > 0 {
						vs = append(vs, Violation{Rule: "C18.requery", Detail: fmt.Sprintf("%s queried the service %d times although an unexpired stored success %v existed", who, queried, fresh), Facts: facts("family", family)})
					}
					if it.Err != nil {
						vs = append(vs, Violation{Rule: "C18.error-cached", Detail: fmt.Sprintf("%s returned error %v although an unexpired stored success %v existed", who, it.Err, fresh), Facts: facts("family", family)})
					} else {
						found := false
						for _, f := range acceptable {
							if f == val {
								found = true
							}
						}
						if !found {
							vs = append(vs, Violation{Rule: "C18.stale", Detail: fmt.Sprintf("%s returned %q, the stored successes valid during the call are %v", who, val, acceptable), Facts: facts("family", family)})
						}
					}
				}
				// a caller that asked nobody may still report a failure if it shared (single-flight) a query
				// that somebody else made while this call was in progress and that failed
				sharedFailure := false
				for _, f := range fetches {
					if !f.ok && f.start <= it.EndAt && f.end >= it.StartAt {
						sharedFailure = true
					}
				}
				if family == "cache-ip" {
					for _, cs2 := range w.Calls {
						for _, it2 := range cs2.Iters {
							if it2.Err != nil && it2.DialsDuring > 0 && it2.StartAt <= it.EndAt && it2.EndAt >= it.StartAt {
								sharedFailure = true
							}
						}
					}
				}
				if it.Err != nil && queried == 0 && sharedFailure {
					ri.probe("failure-shared-with-overlapping-query")
				}
				if it.Err != nil && queried == 0 && !sharedFailure {
					vs = append(vs, Violation{Rule: "C18.error-cached", Detail: fmt.Sprintf("%s returned error %v without querying the service: a failure came out of the cache", who, it.Err), Facts: facts("family", family)})
				}
				if it.Err == nil && queried == 0 {
					ri.probe("served-from-cache")
					// "until expiry": what comes out of the cache must be a success stored at most one
					// expiry period before this call began (the instant of expiry itself is don't-care)
					found := false
					for _, a := range acceptable {
						if a == val {
							found = true
						}
					}
					if !found {
						vs = append(vs, Violation{Rule: "C18.stale", Detail: fmt.Sprintf("%s was served %q from the cache without querying, but no success stored within the last %v has that value (unexpired stores: %v): an expired entry was returned", who, val, ttl, acceptable), Facts: facts("family", family, "kind", "expired-served")})
					}
				}
				if k > 0 && time.Duration(cs.C.GapUs)*time.Microsecond >= ttl {
					ri.probe("entry-expired-between-calls")
					ri.NonTrivial = true
				}
			}
		}
	case "providers":
		cs := w.Calls[0]
		if len(cs.Iters) == 0 {
			return vs
		}
		it := cs.Iters[0]
		conns := w.HTTPConns()
		lastP := -1
		perProv := map[int][]*sim.HTTPConn{}
		for _, c := range conns {
			if c.Provider < lastP {
				vs = append(vs, Violation{Rule: "C18.provider-order", Detail: fmt.Sprintf("provider %d contacted after provider %d", c.Provider, lastP), Facts: facts("family", family)})
			}
			lastP = c.Provider
			perProv[c.Provider] = append(perProv[c.Provider], c)
		}
		if len(perProv) > 1 {
			ri.NonTrivial = true
			ri.probe("several-providers")
		}
		// replay the scripts: expected winner = first provider whose script, read attempt by attempt
		// inside its 2 s budget, reaches "ok" before a permanent outcome
		expectIP := ""
		decided := true
		for p := 0; p < 5 && expectIP == ""; p++ {
			cl := perProv[p]
			if len(cl) == 0 {
				if p <= lastP {
					vs = append(vs, Violation{Rule: "C18.provider-order", Detail: fmt.Sprintf("provider %d was skipped", p), Facts: facts("family", family)})
				}
				break
			}
			for n, c := range cl {
				kind, ip := scriptOutcome(c.Script)
				switch kind {
				case "ok":
					expectIP = ip
					if n != len(cl)-1 {
						vs = append(vs, Violation{Rule: "C18.provider-retry", Detail: fmt.Sprintf("provider %d answered a valid address on attempt %d but was asked %d times", p, n+1, len(cl)), Facts: facts("family", family)})
					}
				case "permanent":
					ri.probe("permanent-provider-error")
					if n != len(cl)-1 {
						vs = append(vs, Violation{Rule: "C18.provider-retry", Detail: fmt.Sprintf("provider %d gave a final answer (%s) on attempt %d but was asked %d times", p, c.Script, n+1, len(cl)), Facts: facts("family", family)})
					}
				case "retryable":
					ri.probe("retryable-provider-error")
				case "stall", "slow":
					decided = decided && kind != "slow"
				}
				if expectIP != "" {
					break
				}
			}
			if len(cl) > 1 {
				if span := cl[len(cl)-1].DialAt - cl[0].DialAt; span > 2*time.Second+time.Millisecond {
					vs = append(vs, Violation{Rule: "C18.provider-retry", Detail: fmt.Sprintf("provider %d was retried for %v, its budget is 2 s", p, span), Facts: facts("family", family)})
				}
			}
			if expectIP != "" && p < lastP {
				vs = append(vs, Violation{Rule: "C18.provider-order", Detail: fmt.Sprintf("provider %d returned the valid address %s, yet provider %d was contacted afterwards", p, expectIP, lastP), Facts: facts("family", family)})
			}
		}
		if decided && expectIP == "" && lastP >= 0 && lastP < 4 {
			// nobody ended the request: a provider that produced no valid address (final error, or its 2 s
			// budget used up by refusals, resets or a hang) is followed by the next one
			vs = append(vs, Violation{Rule: "C18.provider-order", Detail: fmt.Sprintf("discovery stopped after provider %d although no provider had produced a valid address and %d providers had not been asked (returned %q, err %v)", lastP, 4-lastP, it.IP, it.Err), Facts: facts("family", family)})
		}
		if decided {
			got := it.IP
			if it.Err != nil {
				got = ""
			}
			if expectIP != "" && got != expectIP {
				vs = append(vs, Violation{Rule: "C18.provider-order", Detail: fmt.Sprintf("the first valid address in provider order is %s, the call returned %q (err %v)", expectIP, it.IP, it.Err), Facts: facts("family", family)})
			}
			if expectIP == "" && it.Err == nil {
				vs = append(vs, Violation{Rule: "C18.provider-order", Detail: fmt.Sprintf("no provider produced a valid address, yet the call returned %q", it.IP), Facts: facts("family", family)})
			}
		}
	}
	return vs
}

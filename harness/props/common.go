// Package props holds, per property, the seeded scenario generator (workload + fault space) and
// the check that evaluates that property's rules over the outcome of a simulated run.
package props

import (
	"fmt"
	"math/rand/v2"
	"net/netip"
	"sort"
	"strings"

	"verifharness/oracle"
	"verifharness/sim"

	"github.com/DataDog/datadog-traceroute/result"
)

// Violation is one failed oracle rule.
type Violation struct {
	Rule   string            `json:"rule"`
	Detail string            `json:"detail"`
	Facts  map[string]string `json:"facts,omitempty"`
}

// RunInfo is what a check reports besides violations: coverage probes and a shape key used to
// count distinct non-trivial cases.
type RunInfo struct {
	Probes       map[string]int // "rare condition hit" counters
	Shape        string         // scenario shape (distinctness)
	NonTrivial   bool           // the run exercised the property (by the property's stated rule)
	Inconclusive string         // non-empty: the exact oracle was not applicable to this run (counted, never a violation)
}

func (ri *RunInfo) probe(k string) {
	if ri.Probes == nil {
		ri.Probes = map[string]int{}
	}
	ri.Probes[k]++
}

// Property couples a generator and a check.
type Property interface {
	ID() string
	Level() string // exploration | fault_enumeration
	// Gen draws the scenario for run index i of a batch. Grid-style properties map i onto their
	// grid first and draw the rest from rng.
	Gen(rng *rand.Rand, tier string, i int) *sim.Scenario
	Check(out *sim.Outcome, ri *RunInfo) []Violation
	Rule() string // how cases are generated and what makes one non-trivial / distinct
	Assumptions() []string
	QuickRuns() int // fixed number of runs of the quick tier
}

// CurrentSeed is the batch seed (VERIF_SEED), set by the worker before Gen is called; grid-style
// generators use it to derive choices shared by several run indices.
var CurrentSeed uint64

var registry = map[string]Property{}

func register(p Property) { registry[p.ID()] = p }

// Get returns the property implementation for an id.
func Get(id string) Property { return registry[id] }

// IDs lists the registered property ids, sorted.
func IDs() []string {
	var out []string
	for k := range registry {
		out = append(out, k)
	}
	sort.Strings(out)
	return out
}

// ---------------------------------------------------------------------------------------------
// random helpers (everything is drawn from the one rng handed to Gen)

func pick[T any](rng *rand.Rand, xs ...T) T { return xs[rng.IntN(len(xs))] }

func chance(rng *rand.Rand, p float64) bool { return rng.Float64() < p }

func between(rng *rand.Rand, lo, hi int) int {
	if hi <= lo {
		return lo
	}
	return lo + rng.IntN(hi-lo+1)
}

func tape(rng *rand.Rand, n int) []uint32 {
	t := make([]uint32, n)
	for i := range t {
		t[i] = rng.Uint32()
	}
	return t
}

// ---------------------------------------------------------------------------------------------
// variants

// Variant is one protocol variant of the code under test.
type Variant struct {
	Entry  string // icmp|udp|tcp|sack
	V6     bool
	Paris  bool
	Loosen bool
}

func (v Variant) String() string {
	s := v.Entry
	if v.V6 {
		s += "6"
	} else {
		s += "4"
	}
	if v.Paris {
		s += "-paris"
	}
	if v.Entry != "icmp" {
		if v.Loosen {
			s += "-relaxed"
		} else {
			s += "-strict"
		}
	}
	return s
}

// AllVariants enumerates every variant the properties quantify over.
var AllVariants = []Variant{
	{Entry: "icmp"}, {Entry: "icmp", V6: true},
	{Entry: "udp"}, {Entry: "udp", Loosen: true}, {Entry: "udp", V6: true}, {Entry: "udp", V6: true, Loosen: true},
	{Entry: "tcp"}, {Entry: "tcp", Loosen: true}, {Entry: "tcp", Paris: true}, {Entry: "tcp", Paris: true, Loosen: true},
	{Entry: "sack"}, {Entry: "sack", Loosen: true},
}

// ParallelVariants are the variants driven by the parallel engine.
var ParallelVariants = []Variant{
	{Entry: "icmp"}, {Entry: "icmp", V6: true},
	{Entry: "udp"}, {Entry: "udp", Loosen: true}, {Entry: "udp", V6: true}, {Entry: "udp", V6: true, Loosen: true},
	{Entry: "sack"}, {Entry: "sack", Loosen: true},
}

const (
	target4    = "198.51.100.77"
	target6    = "2001:db8:77::1"
	sackTarget = "127.0.0.2"
)

func (v Variant) target(flow int) string {
	switch {
	case v.Entry == "sack":
		return fmt.Sprintf("127.0.0.%d", 2+flow%200)
	case v.V6:
		return target6
	}
	return target4
}

// routerAddr returns a public, per-(flow, ttl) distinct router address.
func routerAddr(v6 bool, flow, ttl int) string {
	if v6 {
		return fmt.Sprintf("2001:db8:%x:%x::1", 0x100+flow, ttl)
	}
	return fmt.Sprintf("%d.%d.%d.1", 11+flow%100, 1+flow/100, ttl)
}

// attackerAddr returns an address no router or target ever uses.
func attackerAddr(v6 bool, n int) string {
	if v6 {
		return fmt.Sprintf("2001:db8:bad::%x", 1+n)
	}
	return fmt.Sprintf("66.6.%d.%d", 1+(n/250)%250, 1+n%250)
}

// ---------------------------------------------------------------------------------------------
// mapping outcome -> per-endpoint specs, folds and reported hops

// EpView is one endpoint with its reference fold and (when it can be determined) the hops the
// code under test reported for it.
type EpView struct {
	Ep   *sim.Endpoint
	Spec *oracle.FlowSpec
	Fold *oracle.Fold
	Call *sim.CallState
	Run  *result.TracerouteRun // nil if the call failed or the run could not be attributed
	Err  error
}

func entryProto(c *sim.Call) string {
	switch c.Entry {
	case "icmp", "udp", "tcp", "sack":
		return c.Entry
	}
	return c.Protocol
}

// specFor derives the property-level flow description of an endpoint from the call that created
// it and from what it put on the wire.
func specFor(w *sim.World, ep *sim.Endpoint) (*oracle.FlowSpec, *sim.CallState) {
	var cs *sim.CallState
	actor := ep.Actor
	base := actor
	if i := strings.IndexByte(base, '.'); i >= 0 {
		base = base[:i]
	}
	if strings.HasPrefix(base, "c") {
		var idx int
		fmt.Sscanf(base, "c%d", &idx)
		if idx < len(w.Calls) {
			cs = w.Calls[idx]
		}
	} else {
		// the request that was running when the handle was created (requests of one scenario follow
		// each other, they never overlap); else the last one
		for _, c := range w.Calls {
			if c.C.Entry == "run_traceroute" || c.C.Entry == "http_handler" {
				if cs == nil || (c.Started && c.StartAt <= ep.Created) {
					cs = c
				}
			}
		}
	}
	if cs == nil {
		return nil, nil
	}
	c := cs.C
	fs := &oracle.FlowSpec{MinTTL: c.MinTTL, MaxTTL: c.MaxTTL}
	direct := c.Entry == "icmp" || c.Entry == "udp" || c.Entry == "tcp" || c.Entry == "sack"
	proto := entryProto(c)
	if !direct {
		if c.Entry == "http_handler" {
			fs.MinTTL = 1
		}
		if ep.Role == "e2e" {
			fs.MinTTL = fs.MaxTTL
		}
	}
	// which TCP flavour: look at what was sent, else at the first filter installed
	if proto == "tcp" && !direct || c.Entry == "sack" {
		isSack := c.Entry == "sack"
		if !direct {
			if len(ep.Probes) > 0 && ep.Probes[0].L4 != nil {
				isSack = ep.Probes[0].L4.Flags&0x02 == 0
			} else if len(ep.Filters) > 0 {
				isSack = int(ep.Filters[0].Spec.FilterType) == 4
			}
		}
		if isSack {
			proto = "sack"
		}
	}
	fs.Proto = proto
	fs.V6 = ep.Addr.Is6() && !ep.Addr.Is4In6()
	port := cs.ResolvedPort
	if !direct {
		_, port = expectedTarget(c, cs.ResolvedPort)
	}
	if proto == "icmp" {
		port = 0
	}
	fs.Target = netip.AddrPortFrom(ep.Addr.Unmap(), uint16(port))
	switch {
	case direct:
		fs.Strict = !c.Loosen
		fs.Paris = c.Paris
	case proto == "sack":
		fs.Strict = false
	default:
		fs.Strict = true
		fs.Paris = c.Paris
	}
	if isn, ok := ep.ISN(); ok {
		fs.ISN = isn
	}
	return fs, cs
}

// views builds the per-endpoint views of an outcome. For direct calls the run is the call's
// result; for multi-run requests runs are attributed to endpoints by source port (or by content
// for ICMP, whose source port never appears on the wire).
func views(out *sim.Outcome) []*EpView {
	w := out.W
	var vs []*EpView
	for _, ep := range w.Eps {
		fs, cs := specFor(w, ep)
		if fs == nil {
			continue
		}
		v := &EpView{Ep: ep, Spec: fs, Call: cs}
		v.Fold = oracle.FoldEndpoint(fs, w, ep)
		vs = append(vs, v)
	}
	// attribute results
	for _, v := range vs {
		c := v.Call.C
		switch c.Entry {
		case "icmp", "udp", "tcp", "sack":
			v.Run, v.Err = v.Call.Run, v.Call.Err
		}
	}
	for _, cs := range w.Calls {
		if cs.Results == nil {
			continue
		}
		runs := cs.Results.Traceroute.Runs
		used := make([]bool, len(runs))
		// by source port first
		for _, v := range vs {
			if v.Call != cs || v.Ep.Role != "run" || v.Spec.Proto == "icmp" || len(v.Ep.Probes) == 0 || v.Ep.Probes[0].L4 == nil {
				continue
			}
			sp := v.Ep.Probes[0].L4.SrcPort
			for i := range runs {
				if !used[i] && runs[i].Source.Port == sp {
					used[i] = true
					v.Run = &runs[i]
					break
				}
			}
		}
		// then by content: a maximum matching between the remaining runs and endpoints whose
		// reference path equals the run's hops; RTT compatibility is preferred (two runs to the same
		// target can have identical paths) but not required, so that an RTT defect stays visible
		var left []*EpView
		for _, v := range vs {
			if v.Call == cs && v.Ep.Role == "run" && v.Run == nil {
				left = append(left, v)
			}
		}
		var free []int
		for i := range runs {
			if !used[i] {
				free = append(free, i)
			}
		}
		match := func(ok func(v *EpView, r *result.TracerouteRun) bool) map[int]int {
			m := map[int]int{} // run index -> view index
			var try func(vi int, seen map[int]bool) bool
			try = func(vi int, seen map[int]bool) bool {
				for _, ri := range free {
					if seen[ri] || !ok(left[vi], &runs[ri]) {
						continue
					}
					seen[ri] = true
					if prev, taken := m[ri]; !taken || try(prev, seen) {
						m[ri] = vi
						return true
					}
				}
				return false
			}
			for vi := range left {
				try(vi, map[int]bool{})
			}
			return m
		}
		strict := match(func(v *EpView, r *result.TracerouteRun) bool {
			return v.Fold.Diff(r.Hops) == "" && len(rttViolations(&EpView{Ep: v.Ep, Spec: v.Spec, Fold: v.Fold, Call: v.Call, Run: r}, out, &RunInfo{})) == 0
		})
		loose := match(func(v *EpView, r *result.TracerouteRun) bool { return v.Fold.Diff(r.Hops) == "" })
		m := strict
		if len(loose) > len(strict) {
			m = loose
		}
		for ri, vi := range m {
			left[vi].Run = &runs[ri]
		}
	}
	return vs
}

func variantOf(v *EpView) string {
	s := v.Spec.Proto
	if v.Spec.V6 {
		s += "6"
	} else {
		s += "4"
	}
	if v.Spec.Paris {
		s += "-paris"
	}
	if v.Spec.Proto != "icmp" {
		if v.Spec.Strict {
			s += "-strict"
		} else {
			s += "-relaxed"
		}
	}
	return s
}

// crashViolations reports the outcomes that deny every oracle its input.
func crashViolations(out *sim.Outcome) []Violation {
	var vs []Violation
	for _, c := range out.W.Calls {
		if c.Panic != "" {
			first := c.Panic
			if i := strings.IndexByte(first, '\n'); i > 0 {
				first = first[:i]
			}
			vs = append(vs, Violation{Rule: "crash", Detail: fmt.Sprintf("call %d (%s) panicked: %s", c.Idx, c.C.Entry, first), Facts: map[string]string{"entry": c.C.Entry}})
		}
	}
	if out.NoReturn {
		vs = append(vs, Violation{Rule: "no-return", Detail: "a call never returned: " + out.Deadlock, Facts: map[string]string{"entry": out.W.Calls[0].C.Entry}})
	}
	if out.W.Overran {
		vs = append(vs, Violation{Rule: "no-return", Detail: "virtual time cap exceeded", Facts: map[string]string{"entry": out.W.Calls[0].C.Entry}})
	}
	return vs
}

func facts(kv ...string) map[string]string {
	m := map[string]string{}
	for i := 0; i+1 < len(kv); i += 2 {
		m[kv[i]] = kv[i+1]
	}
	return m
}

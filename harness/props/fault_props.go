package props

import (
	"encoding/json"
	"errors"
	"fmt"
	"github.com/DataDog/datadog-traceroute/result"
	"math/rand/v2"
	"strings"
	"time"

	"verifharness/codec"
	"verifharness/sim"

	"github.com/DataDog/datadog-traceroute/sack"
)

// sentinelsIn walks an error tree (Unwrap() error and Unwrap() []error) and returns every
// injected cause it exposes.
func sentinelsIn(err error) []*sim.SentinelError {
	var out []*sim.SentinelError
	var walk func(e error)
	walk = func(e error) {
		if e == nil {
			return
		}
		if s, ok := e.(*sim.SentinelError); ok {
			out = append(out, s)
		}
		switch u := e.(type) {
		case interface{ Unwrap() error }:
			walk(u.Unwrap())
		case interface{ Unwrap() []error }:
			for _, x := range u.Unwrap() {
				walk(x)
			}
		}
	}
	walk(err)
	return out
}

// errnoPick draws what an injected failure wraps: nothing, or an errno a real socket call fails with
// (the permission class among them: errors.Is(err, os.ErrPermission) holds for EPERM and EACCES).
func errnoPick(rng *rand.Rand) string {
	return pick(rng, "", "", "EPERM", "EACCES", "ENOBUFS", "EINVAL", "ENETDOWN", "EHOSTUNREACH", "EMSGSIZE", "ErrPermission", "ETIMEDOUT", "EAGAIN")
}

func exposes(err error, f sim.FiredFault) bool {
	for _, s := range sentinelsIn(err) {
		if s.Actor == f.Actor && s.Op == f.Op && s.K == f.K {
			return true
		}
	}
	return false
}

// handleViolations checks, for every endpoint the run opened: each handle closed exactly once, no
// use after close, and nothing left running (C10's second sentence).
func handleViolations(out *sim.Outcome, variant string) []Violation {
	var vs []Violation
	for _, ep := range out.W.Eps {
		if ep.SrcClosed != 1 || ep.SinkClosed != 1 {
			vs = append(vs, Violation{Rule: "C10.close-count", Detail: fmt.Sprintf("%s: Source.Close called %d times, Sink.Close %d times (expected exactly once each)", ep.Actor, ep.SrcClosed, ep.SinkClosed), Facts: facts("variant", variant)})
		}
		if len(ep.UseAfterClose) > 0 {
			vs = append(vs, Violation{Rule: "C10.use-after-close", Detail: fmt.Sprintf("%s: %v called after Close", ep.Actor, ep.UseAfterClose), Facts: facts("variant", variant)})
		}
	}
	if len(out.LeakedSockets) > 0 {
		vs = append(vs, Violation{Rule: "C10.socket-leak", Detail: fmt.Sprintf("after the run the process still holds %d socket(s) it did not hold before it (%v): something the run opened (a reserved local port, a connection) was never closed", len(out.LeakedSockets), out.LeakedSockets), Facts: facts("variant", variant)})
	}
	if out.Deadlock != "" && !out.NoReturn {
		vs = append(vs, Violation{Rule: "C10.goroutine-leak", Detail: fmt.Sprintf("goroutines started by the run outlive the call: %s; still parked: %v", out.Deadlock, out.LeftParked), Facts: facts("variant", variant)})
	}
	return vs
}

// ---------------------------------------------------------------------------------------------
// C10

type c10 struct{}

func init() { register(c10{}) }

const c10Grid = 86

// c10Dial names the grid slots 64..67: no seam fault, the kernel-side connect of the SACK variant fails or
// the handshake is useless (real loopback listener / policy route of the private namespace).
var c10Dial = []string{"closed", "unreach", "noSynAck", "noPermitted"}

func (c10) ID() string     { return "C10" }
func (c10) Level() string  { return "fault_enumeration" }
func (c10) QuickRuns() int { return c10Grid * 7200 }
func (c10) Rule() string {
	return "fault grid: for each seeded base run (every variant, 1-6 TTLs, seeded topology and timing) the slots of the grid are executed with one injected fault each: handle construction fails; 1st/2nd SetPacketFilter fails; k-th WriteTo fails (k=1..8); k-th Read fails fatally (k=1..20), returns a spurious deadline-exceeded (k=1..10) or zero bytes (k=1..10); k-th SetReadDeadline fails (k=1..8); plus 5 slots with 2-3 seeded faults, plus 3 slots in which Sink.Close, Source.Close or both report an error (each handle must still be closed exactly once), plus 5 slots in which the k-th write (k=2..6) blocks for a seeded while and then fails (the receiver keeps accepting replies meanwhile), plus 4 slots in which the k-th read returns bytes (the next reply if one is waiting) together with a fatal error in the same call, plus 2 slots with handles that tell the run to release its reserved port (SourceSinkHandle.MustClosePort), plus 4 slots in which the caller cancels the run (before its first operation, at a seeded instant while it runs, and together with a failing read: handles closed exactly once, none used after its Close, no goroutine left), plus 4 slots in which the SACK variant's real TCP connect fails or is useless (port closed, ENETUNREACH by policy route, SYN-ACK never captured, no SACK-permitted): an error, no result, handles closed exactly once. Run index i = base*86 + slot, so every slot of every base is covered systematically; non-trivial = the fault actually fired (k within the calls the run makes); distinct = distinct (variant, operation, k, class, base shape)"
}
func (c10) Assumptions() []string {
	return []string{"faults are injected at the Source/Sink seam and at handle construction; of the three real kernel calls only TCP connect is made to fail (closed port, unreachable policy route); UDP connect and TCP listen are not fault-injected", "a spurious deadline-exceeded or zero-length read may either fail the run or be skipped; anything else (partial path, success with a wrong path) is a violation"}
}

func c10Fault(slot int, rng *rand.Rand, timeoutMs int) []sim.Fault {
	f := func(op string, k int, class string) []sim.Fault {
		return []sim.Fault{{Actor: "c0", Op: op, K: k, Class: class}}
	}
	switch {
	case slot >= 84:
		// handles that ask the run to release its reserved port (slots 84, 85); the second with a failing read
		if slot == 85 {
			return f("read", between(rng, 1, 4), "fatal")
		}
		return nil
	case slot >= 80:
		// the k-th read hands over bytes together with a fatal error (slots 80-83)
		return f("read", []int{1, 2, 3, 5}[slot-80]+between(rng, 0, 2), "fataldata")
	case slot >= 76:
		// the caller cancels (slots 76-79, instant set by the generator); the last slot adds a failing read
		if slot == 79 {
			return f("read", between(rng, 1, 6), "fatal")
		}
		return nil
	case slot == 0:
		return f("new", 1, "fatal")
	case slot <= 2:
		return f("filter", slot, "fatal")
	case slot <= 10:
		return f("write", slot-2, "fatal")
	case slot <= 30:
		return f("read", slot-10, "fatal")
	case slot <= 40:
		return f("read", slot-30, "deadline")
	case slot <= 50:
		return f("read", slot-40, "zero")
	case slot <= 58:
		return f("deadline", slot-50, "fatal")
	case slot >= 73:
		// a Close that reports an error: the other handle still has to be closed, each exactly once
		switch slot {
		case 73:
			return f("closeSink", 1, "fatal")
		case 74:
			return f("closeSource", 1, "fatal")
		}
		return []sim.Fault{{Actor: "c0", Op: "closeSink", K: 1, Class: "fatal"}, {Actor: "c0", Op: "closeSource", K: 1, Class: "fatal"}}
	case slot >= 68:
		// the k-th write (k=2..6) blocks for a while and then fails: the receiver keeps working while the
		// sender sits inside SendProbe (it may accept the destination reply and stop the sender meanwhile)
		return []sim.Fault{{Actor: "c0", Op: "write", K: slot - 66, Class: "slowfatal", Us: int64(between(rng, 100, max(200, timeoutMs*600)))}}
	}
	var out []sim.Fault
	for n := between(rng, 2, 3); n > 0; n-- {
		op := pick(rng, "read", "read", "write", "deadline", "filter")
		class := "fatal"
		if op == "read" {
			class = pick(rng, "fatal", "deadline", "zero")
		}
		out = append(out, sim.Fault{Actor: "c0", Op: op, K: between(rng, 1, 6), Class: class})
	}
	return out
}

func (c10) Gen(rng0 *rand.Rand, tier string, i int) *sim.Scenario {
	base, slot := i/c10Grid, i%c10Grid
	_ = rng0
	rng := rand.New(rand.NewPCG(CurrentSeed^0xc10, uint64(base)+77)) // the base run depends on (seed, base) only, not on the slot
	o := &wireOpts{variants: AllVariants, silentProb: 0.3, dupProb: 0.1, noDest: 0.3, wellTimed: true}
	o.variants = []Variant{AllVariants[base%len(AllVariants)]}
	if slot >= 64 && slot < 68 {
		o.variants = []Variant{{Entry: "sack", Loosen: base%2 == 1}}
	}
	wr := genWireRun(rng, o, 0, "c0")
	if wr.call.MaxTTL-wr.call.MinTTL > 5 {
		wr.call.MaxTTL = wr.call.MinTTL + 5
	}
	wr.call.TimeoutMs = pick(rng, 150, 300, 500)
	if wr.v.Entry == "tcp" {
		wr.call.TimeoutMs = 300
	}
	for hi := range wr.flow.Hops {
		for ri := range wr.flow.Hops[hi].Replies {
			r := &wr.flow.Hops[hi].Replies[ri]
			if r.DelayUs > int64(wr.call.TimeoutMs-110)*1000 {
				r.DelayUs = int64(between(rng, 50, (wr.call.TimeoutMs-110)*1000))
			}
			r.Dup = 0
		}
	}
	if slot >= 64 && slot < 68 {
		switch c10Dial[slot-64] {
		case "closed":
			wr.lis.Closed = true
		case "noSynAck":
			wr.lis.NoSynAck = true
		case "noPermitted":
			wr.lis.Permitted = false
		case "unreach":
			wr.lis = nil
			wr.call.Target = unreachTarget
		}
		sc := scenarioFor("C10", rng, []*wireRun{wr})
		sc.Note = fmt.Sprintf("base=%d slot=%d dial=%s", base, slot, c10Dial[slot-64])
		return sc
	}
	sc := scenarioFor("C10", rng, []*wireRun{wr})
	sc.Faults = c10Fault(slot, rand.New(rand.NewPCG(uint64(i), 5)), wr.call.TimeoutMs)
	ern := errnoPick(rand.New(rand.NewPCG(uint64(i), 6)))
	for k := range sc.Faults {
		if sc.Faults[k].Class == "fatal" || sc.Faults[k].Class == "slowfatal" || sc.Faults[k].Class == "fataldata" {
			sc.Faults[k].Errno = ern
		}
	}
	sc.Note = fmt.Sprintf("base=%d slot=%d", base, slot)
	if slot >= 84 {
		sc.Knobs.MustClosePort = true
		sc.Note += " mustcloseport=1"
	}
	if slot >= 76 && slot < 80 {
		// "on every path": the caller's cancellation is one more way for a run to end. Before the first
		// operation, or at a seeded instant while probes are out and the receiver is reading.
		crng := rand.New(rand.NewPCG(uint64(i), 7))
		c := &sc.Calls[0]
		span := c.TimeoutMs*1000 + (c.MaxTTL-c.MinTTL+1)*c.DelayMs*1000
		if wr.v.Entry == "tcp" {
			span = (c.MaxTTL - c.MinTTL + 1) * c.TimeoutMs * 1000
		}
		c.CancelAtUs = int64(between(crng, 1, max(span, 2)))
		if slot == 76 {
			c.CancelAtUs = int64(pick(crng, 1, 1, 50, 999))
			c.PreCancelled = chance(crng, 0.5)
		}
		sc.Note += " cancel=1"
	}
	return sc
}

func (c10) Check(out *sim.Outcome, ri *RunInfo) []Violation {
	vs := crashViolations(out)
	cs := out.W.Calls[0]
	variant := (Variant{Entry: cs.C.Entry, V6: strings.Contains(cs.C.Target, ":"), Paris: cs.C.Paris, Loosen: cs.C.Loosen}).String()
	fired := out.W.Fired
	if noteField(out.Sc.Note, "cancel") != "" && cs.CancelledAt > 0 && cs.CancelledAt < cs.EndAt {
		ri.NonTrivial = true
		ri.probe("cell:" + variant + "/cancelled-while-running")
	}
	if len(fired) > 0 {
		ri.NonTrivial = true
		for _, f := range fired {
			ri.probe("fired." + f.Op + "." + f.Class)
			ri.probe(fmt.Sprintf("cell:%s/%s#%d/%s", variant, f.Op, f.K, f.Class))
		}
	}
	var fs []string
	for _, f := range out.Sc.Faults {
		fs = append(fs, fmt.Sprintf("%s#%d/%s", f.Op, f.K, f.Class))
	}
	ri.Shape = variant + "|" + strings.Join(fs, ",") + "|" + shapeOf(out.Sc)
	fct := func(f sim.FiredFault) map[string]string {
		return facts("variant", variant, "op", f.Op, "class", f.Class)
	}
	if dial := noteField(out.Sc.Note, "dial"); dial != "" {
		// the connect failed (or the handshake was useless): an error, no result, everything closed
		if len(out.W.Eps) > 0 {
			ri.NonTrivial = true
			ri.probe("cell:" + variant + "/dial/" + dial)
		}
		ri.Shape = variant + "|dial=" + dial + "|" + shapeOf(out.Sc)
		if cs.Run != nil {
			vs = append(vs, Violation{Rule: "C10.partial-result", Detail: fmt.Sprintf("SACK connect case %q: the call returned a path of %d hops (err=%v)", dial, len(cs.Run.Hops), cs.Err), Facts: facts("variant", variant, "op", "dial", "class", dial)})
		} else if cs.Err == nil {
			vs = append(vs, Violation{Rule: "C10.cause-lost", Detail: fmt.Sprintf("SACK connect case %q: the call returned (nil, nil)", dial), Facts: facts("variant", variant, "op", "dial", "class", dial)})
		}
		return append(vs, handleViolations(out, variant)...)
	}
	if cs.Run != nil && cs.Err != nil {
		vs = append(vs, Violation{Rule: "C10.partial-result", Detail: fmt.Sprintf("call returned both a result (%d hops) and an error: %v", len(cs.Run.Hops), cs.Err), Facts: facts("variant", variant)})
	}
	onlyClose := len(fired) > 0
	for _, f := range fired {
		if !strings.HasPrefix(f.Op, "close") {
			onlyClose = false
		}
	}
	if onlyClose {
		// a failing Close comes after the run is decided: whether its error is reported is not stated
		// by the property; that every handle is still closed exactly once is
		return append(vs, handleViolations(out, variant)...)
	}
	fatal := false
	for _, f := range fired {
		if f.Class != "fatal" {
			continue
		}
		fatal = true
		if cs.Run != nil {
			vs = append(vs, Violation{Rule: "C10.partial-result", Detail: fmt.Sprintf("%s #%d of %s failed with an injected error but the call returned a path of %d hops as success", f.Op, f.K, f.Actor, len(cs.Run.Hops)), Facts: fct(f)})
		}
		if cs.Err == nil {
			if cs.Run == nil {
				vs = append(vs, Violation{Rule: "C10.cause-lost", Detail: fmt.Sprintf("%s #%d failed but the call returned (nil, nil)", f.Op, f.K), Facts: fct(f)})
			}
		} else if !exposes(cs.Err, f) {
			// with several faults only the first fatal one to be observed has to be exposed
			if len(fired) == 1 {
				vs = append(vs, Violation{Rule: "C10.cause-lost", Detail: fmt.Sprintf("%s #%d failed with %q but the returned error does not wrap it: %v", f.Op, f.K, (&sim.SentinelError{Actor: f.Actor, Op: f.Op, K: f.K}).Error(), cs.Err), Facts: fct(f)})
			}
		}
	}
	allFatal := true
	for _, f := range fired {
		if f.Class != "fatal" {
			allFatal = false // a zero-length read or spurious deadline may fail the run with an error of its own
		}
	}
	if len(fired) > 1 && cs.Err != nil && fatal && allFatal && len(sentinelsIn(cs.Err)) == 0 {
		vs = append(vs, Violation{Rule: "C10.cause-lost", Detail: fmt.Sprintf("several faults fired (%v) but the returned error wraps none of them: %v", fired, cs.Err), Facts: facts("variant", variant, "op", "multi", "class", "fatal")})
	}
	if !fatal {
		// only benign classes (or nothing) fired: the run either fails cleanly or returns the full reference
		switch {
		case cs.Err != nil:
			if len(fired) == 0 {
				var ns *sack.NotSupportedError
				if noteField(out.Sc.Note, "cancel") != "" && cs.CancelledAt > 0 {
					ri.probe("cancelled-run-failed")
				} else if !errors.As(cs.Err, &ns) {
					vs = append(vs, Violation{Rule: "C10.cause-lost", Detail: fmt.Sprintf("no fault fired, yet the run failed: %v", cs.Err), Facts: facts("variant", variant, "op", "none", "class", "none")})
				}
			} else {
				ri.probe("benign-fault-failed-run")
			}
		case cs.Run != nil:
			for _, v := range views(out) {
				if v.Run == nil || v.Fold.Ambiguous > 0 || (isSerial(v) && hasLateOrDup(v)) {
					continue
				}
				if d := v.Fold.Diff(v.Run.Hops); d != "" {
					f := sim.FiredFault{Op: "none", Class: "none"}
					if len(fired) > 0 {
						f = fired[0]
					}
					vs = append(vs, Violation{Rule: "C10.partial-result", Detail: fmt.Sprintf("after %v the run returned a path that is not the reference path: %s", fired, d), Facts: fct(f)})
				}
			}
		}
	}
	vs = append(vs, handleViolations(out, variant)...)
	return vs
}

// ---------------------------------------------------------------------------------------------
// C15

type c15 struct{}

func init() { register(c15{}) }

func (c15) ID() string     { return "C15" }
func (c15) Level() string  { return "exploration" }
func (c15) QuickRuns() int { return 120000 }
func (c15) Rule() string {
	return "seven eighths controlled: traceroute.RunTraceroute with 0-4 runs and 0-6 end-to-end probes of every protocol/method, with and without public-IP collection (providers succeeding, failing permanently, all failing) and reverse DNS; a seeded subset of the endpoints (by role and ordinal) fails at its first send or an early read with its own sentinel error; per-flow delays and the choice tape vary the completion order; one eighth free-running (no scheduler, GOMAXPROCS 8): 0-4 runs and 2-40 end-to-end probes started at the same instant, most or all failing at handle construction with distinct sentinels, the joined error must expose every one of them (an unsynchronised aggregation loses some); non-trivial = at least two concurrent endpoints existed; distinct = distinct (protocol, counts, failing subset, topology) shapes"
}
func (c15) Assumptions() []string {
	return []string{"providers never answer with a retryable error in this check (the back-off jitter source is not seedable); retry behaviour is covered by C18", "runs are attributed to endpoints by source port, ICMP runs by content"}
}

func genProviders(rng *rand.Rand, sc *sim.Scenario) string {
	// returns the address the fetcher should report ("" when every provider fails)
	mode := rng.IntN(4)
	ip := fmt.Sprintf("203.0.113.%d", 1+rng.IntN(250))
	switch mode {
	case 0: // first provider succeeds
		sc.HTTP = append(sc.HTTP, sim.HTTPPlan{Provider: 0, Script: []string{"status:200:" + ip + "\n"}})
		return ip
	case 1: // some fail permanently, a later one succeeds
		k := between(rng, 1, 4)
		for p := 0; p < k; p++ {
			sc.HTTP = append(sc.HTTP, sim.HTTPPlan{Provider: p, Script: []string{pick(rng, fmt.Sprintf("status:%d:not found", clientStatus(rng)), fmt.Sprintf("status:%d:203.0.113.251", clientStatus(rng)), "status:200:not an address", "status:200:", "status:429:slow down")}})
		}
		sc.HTTP = append(sc.HTTP, sim.HTTPPlan{Provider: k, Script: []string{"status:200:  " + ip + "  \n"}})
		return ip
	default: // every provider fails permanently
		for p := 0; p < 5; p++ {
			sc.HTTP = append(sc.HTTP, sim.HTTPPlan{Provider: p, Script: []string{pick(rng, fmt.Sprintf("status:%d:x", clientStatus(rng)), "status:400:x", "status:200:garbage")}})
		}
		return ""
	}
}

// genC15Free draws a free-running request (no scheduler, real parallelism) in which many runs and
// end-to-end probes fail at the same moment: the aggregation of their errors must lose none.
func genC15Free(rng *rand.Rand) *sim.Scenario {
	c := sim.Call{Entry: "run_traceroute", Protocol: pick(rng, "udp", "icmp", "tcp"), Method: "syn", Target: target4, Port: 33434, MinTTL: 1, MaxTTL: 1,
		TimeoutMs: 0, DelayMs: 0, Queries: between(rng, 0, 4), E2E: between(rng, 2, 40)}
	sc := &sim.Scenario{Property: "C15", Mode: "free", Calls: []sim.Call{c}, Note: "family=free-failures"}
	sc.Knobs.RandSeed = int64(rng.Uint32())
	total := c.Queries + c.E2E
	if chance(rng, 0.5) {
		sc.Knobs.FreeFailAll = true
	} else {
		for k := 1; k <= total; k++ {
			if chance(rng, 0.7) {
				sc.Knobs.FreeFailNew = append(sc.Knobs.FreeFailNew, k)
			}
		}
	}
	return sc
}

func (c15) Gen(rng *rand.Rand, tier string, i int) *sim.Scenario {
	if i%8 == 7 {
		return genC15Free(rng)
	}
	o := requestOpts{queriesMin: 0, queriesMax: 4, e2eMax: 6, publicIP: 0.4, reverseDNS: 0.3, bigE2E: 0.01}
	if tier == "thorough" {
		o.queriesMax, o.e2eMax, o.bigE2E = 6, 10, 0.04
	}
	sc := genRequestScenario("C15", rng, o)
	if chance(rng, 0.25) {
		// the same request through the HTTP API: the counts (also explicit zeros) come from the query string
		toHandler(rng, sc, &o)
	}
	c := &sc.Calls[0]
	if c.PublicIP {
		sc.Note = "publicip=" + genProviders(rng, sc)
	}
	if c.ReverseDNS {
		// every address answers with one name
		sc.DNS = nil
	}
	// failing subset
	if chance(rng, 0.55) {
		var actors []string
		for q := 1; q <= c.Queries; q++ {
			actors = append(actors, fmt.Sprintf("run#%d", q))
		}
		for e := 1; e <= c.E2E; e++ {
			actors = append(actors, fmt.Sprintf("e2e#%d", e))
		}
		for _, a := range actors {
			if chance(rng, 0.35) {
				op := pick(rng, "write", "read", "new", "filter")
				k := 1
				if op == "read" {
					k = between(rng, 1, 3)
				}
				ft := sim.Fault{Actor: a, Op: op, K: k, Class: "fatal"}
				if op == "write" && chance(rng, 0.4) {
					// fails after a while: the other runs and probes finish before, around or after it
					ft.Class, ft.Us = "slowfatal", int64(between(rng, 100, c.TimeoutMs*700))
				}
				ft.Errno = errnoPick(rng)
				sc.Faults = append(sc.Faults, ft)
			}
		}
		if c.Entry != "http_handler" && chance(rng, 0.3) {
			// several runs fail "for the same reason": identical error texts, distinct failures
			for k := range sc.Faults {
				sc.Faults[k].Anon = true
			}
		}
		if chance(rng, 0.15) {
			// ... and the caller gives up as well: the genuine failures must not disappear behind the
			// context's error
			span := int64(c.TimeoutMs)*1000 + int64(c.E2E)*300000
			c.CancelAtUs = int64(between(rng, 1, int(span)))
		}
	} else if chance(rng, 0.2) {
		// the caller gives up at a seeded instant (before the start, between the launches of the
		// end-to-end probes, while runs are in flight, during enrichment): an error or the full counts
		span := int64(c.TimeoutMs)*1000 + int64(c.E2E)*300000
		c.CancelAtUs = int64(pick(rng, 1, between(rng, 1, 2000), between(rng, 1, int(span)), between(rng, 1, int(span))))
		c.PreCancelled = c.CancelAtUs == 1 && i%2 == 0
		if len(sc.Listeners) == 0 && !c.PreCancelled && (c.PublicIP || chance(rng, 0.5)) {
			// ... while the public-IP look-up is still going on (providers that stall or fail one after
			// the other): the look-up fails because the caller left. The same request is executed a
			// second time without public-IP collection; collecting it must not turn success into failure.
			c.PublicIP = true
			sc.HTTP = nil
			for p := 0; p < 5; p++ {
				sc.HTTP = append(sc.HTTP, sim.HTTPPlan{Provider: p, Script: []string{pick(rng, "stallBeforeHeaders", "stallAfterHeaders", "stallBeforeHeaders", fmt.Sprintf("status:%d:x", clientStatus(rng)), "status:200:garbage")}})
			}
			sc.Note = "publicip="
			sc.Twin = "no-publicip"
		}
	}
	return sc
}

func (c15) Check(out *sim.Outcome, ri *RunInfo) []Violation {
	vs := crashViolations(out)
	cs := out.W.Calls[0]
	c := cs.C
	proto := c.Protocol + "/" + c.Method
	if out.Sc.Mode == "free" {
		ri.Shape = fmt.Sprint(out.Sc.Calls, out.Sc.Knobs.FreeFailNew, out.Sc.Knobs.FreeFailAll)
		failed := out.W.FreeFailed
		if failed >= 2 {
			ri.NonTrivial = true
			ri.probe("free.concurrent-failures")
		}
		if failed == 0 {
			return vs
		}
		if cs.Results != nil {
			vs = append(vs, Violation{Rule: "C15.partial", Detail: fmt.Sprintf("%d endpoints failed at construction but the request returned a result", failed), Facts: facts("protocol", proto, "mode", "free")})
		}
		distinct := map[int]bool{}
		for _, s := range sentinelsIn(cs.Err) {
			distinct[s.K] = true
		}
		if len(distinct) != failed {
			vs = append(vs, Violation{Rule: "C15.cause-lost", Detail: fmt.Sprintf("%d runs/probes failed at the same moment (real parallelism, %d queries + %d e2e probes) but the returned error exposes only %d of the failures", failed, c.Queries, c.E2E, len(distinct)), Facts: facts("protocol", proto, "mode", "free")})
		}
		return vs
	}
	ri.Shape = shapeOf(out.Sc) + fmt.Sprint(out.Sc.Faults, c.Queries, c.E2E, c.PublicIP, c.Entry)
	// through the HTTP handler the outcome is a status plus either the JSON document or the error text
	viaHTTP := c.Entry == "http_handler"
	results, callErr := cs.Results, cs.Err
	exposed := func(f sim.FiredFault) bool { return exposes(callErr, f) }
	if viaHTTP {
		ri.probe("via-http-handler")
		proto += "/http"
		if cs.HTTPStatus == 200 {
			var r result.Results
			if err := json.Unmarshal(cs.HTTPBody, &r); err != nil {
				vs = append(vs, Violation{Rule: "C15.count", Detail: "HTTP 200 whose body is not the result document: " + err.Error(), Facts: facts("protocol", proto, "what", "document")})
				return vs
			}
			results = &r
		} else {
			callErr = fmt.Errorf("HTTP %d: %s", cs.HTTPStatus, cs.HTTPBody)
		}
		exposed = func(f sim.FiredFault) bool {
			return strings.Contains(string(cs.HTTPBody), (&sim.SentinelError{Actor: f.Actor, Op: f.Op, K: f.K}).Error())
		}
	}
	if len(out.W.Eps)+len(out.W.FailedNew) >= 2 {
		ri.NonTrivial = true
	}
	var fatal []sim.FiredFault
	for _, f := range out.W.Fired {
		if f.Class == "fatal" {
			fatal = append(fatal, f)
		}
	}
	if c.CancelAtUs > 0 && len(fatal) > 0 {
		ri.probe("request-cancelled-with-failures")
	}
	if c.CancelAtUs > 0 && len(fatal) == 0 {
		// a cancelled request: it may fail, or it may carry on and deliver everything; what it must not
		// do is return a document with fewer runs or samples than requested as a success
		ri.probe("request-cancelled")
		if cs.CancelledAt > 0 && cs.CancelledAt < cs.EndAt {
			ri.probe("request-cancelled-while-running")
		}
		if callErr == nil && results != nil {
			if n := len(results.Traceroute.Runs); n != c.Queries {
				vs = append(vs, Violation{Rule: "C15.count", Detail: fmt.Sprintf("request cancelled at %dus returned success with %d runs, %d requested", c.CancelAtUs, n, c.Queries), Facts: facts("protocol", proto, "what", "runs-after-cancel")})
			}
			if n := len(results.E2eProbe.RTTs); n != c.E2E {
				vs = append(vs, Violation{Rule: "C15.count", Detail: fmt.Sprintf("request cancelled at %dus returned success with %d RTT samples, %d requested", c.CancelAtUs, n, c.E2E), Facts: facts("protocol", proto, "what", "rtts-after-cancel")})
			}
		}
		vs = append(vs, c15Twin(out, ri, callErr, viaHTTP, proto)...)
		return vs
	}
	if len(out.Sc.HTTP) > 0 {
		ri.probe("publicip-requested")
	}
	if len(fatal) == 0 {
		if callErr != nil {
			vs = append(vs, Violation{Rule: "C15.publicip-fatal", Detail: fmt.Sprintf("no run or probe failed, yet the request failed: %v", callErr), Facts: facts("protocol", proto)})
			return vs
		}
		if results == nil {
			return vs
		}
		ri.probe("all-succeeded")
		if n := len(results.Traceroute.Runs); n != c.Queries {
			vs = append(vs, Violation{Rule: "C15.count", Detail: fmt.Sprintf("%d runs in the result, %d requested", n, c.Queries), Facts: facts("protocol", proto, "what", "runs")})
		}
		if n := len(results.E2eProbe.RTTs); n != c.E2E {
			vs = append(vs, Violation{Rule: "C15.count", Detail: fmt.Sprintf("%d RTT samples in the result, %d requested", n, c.E2E), Facts: facts("protocol", proto, "what", "rtts")})
		}
		// every run equals the reference of exactly one run-role endpoint
		matched := 0
		conclusive := true
		for _, v := range views(out) {
			if v.Ep.Role != "run" || strings.Contains(v.Ep.Actor, ".") {
				continue
			}
			if v.Fold.Ambiguous > 0 || (isSerial(v) && hasLateOrDup(v)) {
				conclusive = false
			}
			if v.Run != nil && v.Fold.Diff(v.Run.Hops) == "" {
				matched++
			}
		}
		// (the JSON document does not carry the destination flag: the content comparison is for the library entry)
		if conclusive && !viaHTTP && matched != len(results.Traceroute.Runs) && len(results.Traceroute.Runs) == c.Queries {
			vs = append(vs, Violation{Rule: "C15.count", Detail: fmt.Sprintf("only %d of the %d returned runs equal the reference path of a distinct endpoint (lost or duplicated run)", matched, c.Queries), Facts: facts("protocol", proto, "what", "content")})
		}
		want := ""
		if strings.HasPrefix(out.Sc.Note, "publicip=") {
			want = strings.TrimPrefix(out.Sc.Note, "publicip=")
		}
		if c.PublicIP && results.Source.PublicIP != want {
			vs = append(vs, Violation{Rule: "C15.publicip-fatal", Detail: fmt.Sprintf("public IP %q reported, providers were scripted to yield %q", results.Source.PublicIP, want), Facts: facts("protocol", proto)})
		}
		return vs
	}
	ri.probe(fmt.Sprintf("failed-endpoints=%d", min(len(fatal), 4)))
	if results != nil {
		vs = append(vs, Violation{Rule: "C15.partial", Detail: fmt.Sprintf("%d endpoints failed (%v) but the request returned a result with %d runs and %d samples", len(fatal), fatal, len(results.Traceroute.Runs), len(results.E2eProbe.RTTs)), Facts: facts("protocol", proto)})
	}
	if callErr == nil {
		if results == nil {
			vs = append(vs, Violation{Rule: "C15.cause-lost", Detail: "endpoints failed but the request returned (nil, nil)", Facts: facts("protocol", proto)})
		}
		return vs
	}
	for _, f := range fatal {
		if !exposed(f) {
			vs = append(vs, Violation{Rule: "C15.cause-lost", Detail: fmt.Sprintf("failure of %s (%s #%d) is not exposed by the returned error: %v", f.Actor, f.Op, f.K, callErr), Facts: facts("protocol", proto)})
			break
		}
	}
	return vs
}

// c15Twin is the metamorphic rule for "failing to determine the public IP never fails the request"
// when the caller leaves while the look-up is under way: the same request, same seed, same
// cancellation instant, executed without public-IP collection, succeeded; then the request with the
// look-up must not fail. The two executions are comparable when every decision the code can take on
// the caller's context falls on the same side of the cancellation in both: the cancellation lands
// before the last run or probe of either execution ends (what follows the runs sees a cancelled
// context in both) and coincides with no other event (nothing depends on a tie-break).
func c15Twin(out *sim.Outcome, ri *RunInfo, callErr error, viaHTTP bool, proto string) []Violation {
	tw := out.Twin
	if tw == nil || tw.W == nil || len(tw.W.Calls) == 0 || out.Sc.Twin != "no-publicip" {
		return nil
	}
	ri.probe("twin.executed")
	cs, tcs := out.W.Calls[0], tw.W.Calls[0]
	if callErr == nil {
		return nil
	}
	ri.probe("twin.request-with-look-up-failed")
	twinOK := tcs.Finished && tcs.Panic == "" && tw.Deadlock == "" && tcs.Err == nil && tcs.Results != nil
	if viaHTTP {
		twinOK = tcs.Finished && tcs.Panic == "" && tw.Deadlock == "" && tcs.HTTPStatus == 200
	}
	if !twinOK {
		return nil
	}
	at := time.Duration(cs.C.CancelAtUs) * time.Microsecond
	lastClose := func(w *sim.World) time.Duration {
		var last time.Duration
		for _, ep := range w.Eps {
			if ep.SrcClosed == 0 {
				return 0
			}
			last = max(last, ep.SrcClosedAt)
		}
		return last
	}
	if len(out.W.Eps) == 0 || len(out.W.Eps) != len(tw.W.Eps) || lastClose(out.W) <= at || lastClose(tw.W) <= at {
		ri.probe("twin.not-comparable:cancelled-after-the-runs")
		return nil
	}
	if !out.W.Log.TieFree(at) || !tw.W.Log.TieFree(at) {
		ri.probe("twin.not-comparable:tie")
		return nil
	}
	ri.probe("twin.compared")
	return []Violation{{Rule: "C15.publicip-fatal", Detail: fmt.Sprintf("request cancelled at %v while the public-IP look-up was under way failed (%v); the same request without public-IP collection, cancelled at the same instant, succeeded with all %d runs and %d samples: the look-up's failure failed the request", at, callErr, cs.C.Queries, cs.C.E2E), Facts: facts("protocol", proto, "what", "twin")}}
}

// ---------------------------------------------------------------------------------------------
// C20

type c20 struct{}

func init() { register(c20{}) }

var c20Methods = []string{"syn", "sack", "prefer_sack", ""}
var c20Caps = []string{"ok-ts", "ok", "noPermitted", "plainAck", "closed", "noSynAck", "unreach", "ok-synack-twice", "ok-fin", "ok-greeted"}

// unreachTarget is an address for which the worker's private network namespace holds the policy
// rule "to 198.18.0.9 ipproto tcp unreachable": a TCP connect fails at once with ENETUNREACH (a
// "cannot connect" that is not a refused connection) while the UDP connect used for local-address
// discovery still works.
const unreachTarget = "198.18.0.9"

var c20Faults = []string{"none", "filter1", "filter2", "write1", "write2", "read1", "read3", "new"}

func (c20) ID() string     { return "C20" }
func (c20) Level() string  { return "fault_enumeration" }
func (c20) QuickRuns() int { return len(c20Methods) * len(c20Caps) * len(c20Faults) * 4 * 300 }
func (c20) Rule() string {
	return "finite matrix, enumerated by run index: TCP method {syn, sack, prefer_sack, \"\"} x target capability {listening with SACK-permitted +/- timestamps, listening without SACK-permitted, ACKs without SACK blocks, port closed (real ECONNREFUSED), TCP connect failing with ENETUNREACH (policy-routing rule in the worker's network namespace), handshake never captured, SYN-ACK retransmitted during probing, target half-closing (FIN|ACK without SACK blocks) during probing} x injected non-capability failure {none, 1st/2nd filter install, 1st/2nd send, 1st/3rd read, handle construction} x end-to-end probes 0..3; topology, timing and the choice tape are seeded per repetition; non-trivial = a TCP endpoint was created; distinct = distinct matrix cells x topology shapes"
}
func (c20) Assumptions() []string {
	return []string{"the SACK target is a real listening socket on loopback (the kernel completes the handshake); its SYN-ACK as seen by the capture handle is synthesised by the simulator with the scripted options"}
}

func (c20) Gen(rng *rand.Rand, tier string, i int) *sim.Scenario {
	cell := i % (len(c20Methods) * len(c20Caps) * len(c20Faults) * 4)
	method := c20Methods[cell%len(c20Methods)]
	cell /= len(c20Methods)
	capb := c20Caps[cell%len(c20Caps)]
	cell /= len(c20Caps)
	fault := c20Faults[cell%len(c20Faults)]
	cell /= len(c20Faults)
	e2e := cell % 4
	c := sim.Call{Entry: "run_traceroute", Protocol: "tcp", Method: method, Target: "127.0.0.2", Listener: 1, MinTTL: 1,
		MaxTTL: between(rng, 1, 5), TimeoutMs: pick(rng, 300, 500), DelayMs: pick(rng, 0, 1, 5), Queries: between(rng, 1, 2), E2E: e2e}
	lis := sim.Listener{Addr: "127.0.0.2", Port: 33434, Permitted: true, ISN: rng.Uint32(), ServerSeq: rng.Uint32(), OptLayout: pick(rng, "", "bsd", "win", "tsfirst", "sacklast")}
	switch capb {
	case "ok-ts":
		lis.Timestamps = true
	case "noPermitted":
		lis.Permitted = false
	case "closed":
		lis.Closed = true
	case "noSynAck":
		lis.NoSynAck = true
	case "ok-synack-twice":
		// the target retransmits its SYN-ACK (it missed the handshake ACK): seen again during probing
		lis.SynAckDupUs = int64(pick(rng, 300, 5000, 30000, 120000))
	case "ok-greeted":
		// a service that greets on accept (SSH, SMTP, ...): its banner went out before the capture filter
		// was switched to the connection, so every later acknowledgement carries an advanced sequence number
		lis.GreetingLen = between(rng, 1, 80)
	case "ok-fin":
		// the target closes its side right after accepting (a FIN|ACK with nothing to SACK yet arrives
		// before or between the duplicate ACKs): it still answers every probe with SACK blocks
		lis.FinAfterUs = int64(pick(rng, 1, 200, 3000, 20000, 150000))
		lis.Timestamps = chance(rng, 0.5)
	}
	if capb == "unreach" {
		c.Target, c.Listener, c.Port = unreachTarget, 0, 33434
	}
	spelled := ""
	if srng := rand.New(rand.NewPCG(uint64(i), 20)); chance(srng, 0.04) {
		// another spelling of the protocol name: the request may be refused outright (nothing opened,
		// nothing sent) or executed, and then the method policy holds for it as for "tcp"
		c.Protocol = pick(srng, "TCP", "Tcp", "tCP")
		spelled = " spelling=" + c.Protocol
	}
	if crng := rand.New(rand.NewPCG(uint64(i), 21)); fault == "none" && chance(crng, 0.08) {
		// the caller's context is already done (or ends within the first milliseconds): a connect that
		// fails for that reason says nothing about the target's SACK support
		c.CancelAtUs = int64(pick(crng, 1, 1, 1, between(crng, 1, 3000)))
		c.PreCancelled = chance(crng, 0.5)
		spelled += " cancel=1"
	}
	sc := &sim.Scenario{Property: "C20", Calls: []sim.Call{c}, Listeners: []sim.Listener{lis}, Note: fmt.Sprintf("method=%q cap=%s fault=%s e2e=%d", method, capb, fault, e2e) + spelled}
	dest := between(rng, 1, c.MaxTTL)
	wo := &wireOpts{silentProb: 0.2, wellTimed: true}
	mk := func(fi int, actor string, v Variant, minTTL int, plain bool) {
		c2 := c
		c2.MinTTL = minTTL
		c2.PollMs = 100
		c2.Port = 1
		if v.Entry == "sack" {
			c2.DelayMs = 10
		}
		f := genFlow(rng, wo, v, &c2, fi, actor, dest)
		lim := int64(c.TimeoutMs-100)*1000 - 1000
		for hi := range f.Hops {
			for ri := range f.Hops[hi].Replies {
				r := &f.Hops[hi].Replies[ri]
				if r.DelayUs > lim {
					r.DelayUs = int64(between(rng, 50, int(lim)))
				}
				r.Dup = 0
				if plain && r.Form == "sack" {
					r.Form = "plainack"
				}
			}
		}
		sc.Flows = append(sc.Flows, f)
	}
	fi := 0
	for q := 1; q <= c.Queries; q++ {
		mk(fi, fmt.Sprintf("run#%d", q), Variant{Entry: "sack", Loosen: true}, 1, capb == "plainAck")
		if capb == "unreach" {
			// the SACK endpoint never gets to send; give its successor flows the right target
		}
		fi++
		mk(fi, fmt.Sprintf("run#%d.2", q), Variant{Entry: "tcp"}, 1, false)
		fi++
	}
	for e := 1; e <= e2e; e++ {
		mk(fi, fmt.Sprintf("e2e#%d", e), Variant{Entry: "tcp"}, c.MaxTTL, false)
		fi++
	}
	// with method syn the first endpoint of a run is the SYN endpoint: give it the SYN behaviour
	if method == "syn" || method == "" {
		for k := range sc.Flows {
			if strings.HasSuffix(sc.Flows[k].Actor, ".2") {
				base := strings.TrimSuffix(sc.Flows[k].Actor, ".2")
				for j := range sc.Flows {
					if sc.Flows[j].Actor == base {
						sc.Flows[j].Hops = sc.Flows[k].Hops
					}
				}
			}
		}
	}
	add := func(op string, k int) {
		sc.Faults = append(sc.Faults, sim.Fault{Actor: "run#1", Op: op, K: k, Class: "fatal", Errno: errnoPick(rng)})
	}
	switch fault {
	case "filter1":
		add("filter", 1)
	case "filter2":
		add("filter", 2)
	case "write1":
		add("write", 1)
	case "write2":
		add("write", 2)
	case "read1":
		add("read", 1)
	case "read3":
		add("read", 3)
	case "new":
		add("new", 1)
	}
	sc.Knobs.RandSeed = int64(rng.Uint32())
	sc.Tape = tape(rng, 32)
	return sc
}

func noteField(note, key string) string {
	for _, f := range strings.Fields(note) {
		if strings.HasPrefix(f, key+"=") {
			return strings.Trim(strings.TrimPrefix(f, key+"="), "\"")
		}
	}
	return ""
}

func (c20) Check(out *sim.Outcome, ri *RunInfo) []Violation {
	vs := crashViolations(out)
	cs := out.W.Calls[0]
	method := noteField(out.Sc.Note, "method")
	capb := noteField(out.Sc.Note, "cap")
	fault := noteField(out.Sc.Note, "fault")
	ri.Shape = out.Sc.Note + shapeOf(out.Sc)
	fct := facts("method", method, "cap", capb, "fault", fault)
	if len(out.W.Eps) > 0 {
		ri.NonTrivial = true
	}
	ri.probe("cap." + capb)
	ri.probe(fmt.Sprintf("cell:%s/%s/%s/e2e%d", method, capb, fault, cs.C.E2E))
	synProbes, ackProbes := map[string]int{}, map[string]int{}
	for _, ep := range out.W.Eps {
		for _, p := range ep.Probes {
			if p.L4 == nil || p.IP == nil || p.IP.Proto != codec.ProtoTCP {
				continue
			}
			if p.L4.Flags&codec.FlagSYN != 0 {
				synProbes[ep.Role]++
			} else {
				ackProbes[ep.Role]++
			}
		}
	}
	accepted := 0
	for _, li := range out.W.Listeners() {
		accepted += li.Accepted
	}
	if sp := noteField(out.Sc.Note, "spelling"); sp != "" {
		if cs.Err != nil && len(out.W.Eps) == 0 && len(out.W.FailedNew) == 0 && accepted == 0 {
			ri.probe("spelling.refused")
			return vs
		}
		ri.probe("spelling.executed")
	}
	// e2e probes: SYN only, no connection
	if ackProbes["e2e"] > 0 {
		vs = append(vs, Violation{Rule: "C20.e2e-method", Detail: fmt.Sprintf("end-to-end probes emitted %d ACK|PSH (SACK) probes with method %q", ackProbes["e2e"], method), Facts: fct})
	}
	runSackEps := 0
	for _, ep := range out.W.Eps {
		if ep.Role == "run" && len(ep.Filters) > 0 && int(ep.Filters[0].Spec.FilterType) == 4 {
			runSackEps++
		}
	}
	if accepted > runSackEps {
		rule := "C20.e2e-method"
		if method == "syn" || method == "" {
			rule = "C20.conn-in-syn"
		}
		vs = append(vs, Violation{Rule: rule, Detail: fmt.Sprintf("%d TCP connections were opened to the target but only %d SACK traceroute endpoints exist (method %q, %d e2e probes)", accepted, runSackEps, method, cs.C.E2E), Facts: fct})
	}
	var firedOnRun []sim.FiredFault
	for _, f := range out.W.Fired {
		if f.Class == "fatal" {
			firedOnRun = append(firedOnRun, f)
		}
	}
	fellBack := false
	for _, ep := range out.W.Eps {
		if ep.Role == "run" && strings.HasSuffix(ep.Actor, ".2") {
			fellBack = true
		}
	}
	// "ACKs without SACK blocks" only makes SACK unavailable for a run that actually got such an ACK
	plainAckRead, sackRuns := 0, 0
	for _, v := range views(out) {
		if v.Ep.Role == "run" && v.Spec.Proto == "sack" {
			sackRuns++
			if v.Fold.PlainAck {
				plainAckRead++
			}
		}
	}
	if capb == "ok-synack-twice" {
		capb = "ok" // a retransmitted SYN-ACK changes nothing about the target's capability
		ri.probe("synack-retransmitted")
	}
	if capb == "ok-greeted" {
		capb = "ok" // data the target sent on its own changes nothing about its SACK support
		ri.probe("target-sent-a-banner")
	}
	if capb == "ok-fin" {
		capb = "ok" // nor does a target that closes its own side: it acknowledges probes with SACK blocks all the same
		ri.probe("target-half-closed")
	}
	if capb == "plainAck" {
		if plainAckRead == 0 {
			capb = "ok"
			ri.probe("plain-ack-never-read")
		} else if plainAckRead < sackRuns {
			ri.Inconclusive = "plain-ack-on-some-runs-only"
			return vs
		}
	}
	unsupported := capb == "closed" || capb == "noPermitted" || capb == "plainAck" || capb == "unreach"
	if noteField(out.Sc.Note, "cancel") != "" && cs.CancelledAt > 0 {
		// a cancelled request may fail or finish; what it must not do is take the cancellation for
		// "SACK unsupported" and hand back a SYN trace, or connect under method syn
		ri.probe("request-cancelled")
		if method == "prefer_sack" && !unsupported && fellBack {
			vs = append(vs, Violation{Rule: "C20.masked", Detail: fmt.Sprintf("request cancelled at %v: SACK is available (%s) and nothing was injected, yet a SYN trace was run as fallback (err=%v): the caller's cancellation was taken for 'SACK unsupported'", cs.CancelledAt, capb, cs.Err), Facts: fct})
		}
		if (method == "syn" || method == "") && (accepted > 0 || ackProbes["run"] > 0) {
			vs = append(vs, Violation{Rule: "C20.conn-in-syn", Detail: fmt.Sprintf("method syn opened %d connections / sent %d SACK probes", accepted, ackProbes["run"]), Facts: fct})
		}
		return vs
	}
	switch method {
	case "syn", "":
		if accepted > 0 || ackProbes["run"] > 0 {
			vs = append(vs, Violation{Rule: "C20.conn-in-syn", Detail: fmt.Sprintf("method syn opened %d connections / sent %d SACK probes", accepted, ackProbes["run"]), Facts: fct})
		}
	case "sack":
		if synProbes["run"] > 0 {
			vs = append(vs, Violation{Rule: "C20.masked", Detail: fmt.Sprintf("method sack put %d SYN probes on the wire (a SYN trace masks the SACK outcome)", synProbes["run"]), Facts: fct})
		}
		if cs.Err == nil && (unsupported || capb == "noSynAck") {
			vs = append(vs, Violation{Rule: "C20.masked", Detail: fmt.Sprintf("method sack succeeded although the target capability is %s", capb), Facts: fct})
		}
	case "prefer_sack":
		// which run endpoints had the capability problem without an injected fault before it?
		if unsupported && len(firedOnRun) == 0 {
			if !fellBack {
				vs = append(vs, Violation{Rule: "C20.no-fallback", Detail: fmt.Sprintf("SACK is unavailable (%s) and nothing else failed, yet no SYN trace was attempted (error: %v)", capb, cs.Err), Facts: fct})
			} else {
				ri.probe("fell-back")
				if cs.Err != nil {
					vs = append(vs, Violation{Rule: "C20.no-fallback", Detail: fmt.Sprintf("fell back to SYN (capability %s) but the request failed: %v", capb, cs.Err), Facts: fct})
				}
			}
		}
		if !unsupported {
			if fellBack {
				vs = append(vs, Violation{Rule: "C20.masked", Detail: fmt.Sprintf("SACK is available (%s) but a SYN trace was run as fallback (injected fault: %s)", capb, fault), Facts: fct})
			}
			if capb == "noSynAck" && cs.Err == nil {
				vs = append(vs, Violation{Rule: "C20.masked", Detail: "the handshake was never captured, yet the request succeeded", Facts: fct})
			}
		}
	}
	// an injected (non-capability) failure must be reported, not masked
	for _, f := range firedOnRun {
		if cs.Err == nil {
			vs = append(vs, Violation{Rule: "C20.masked", Detail: fmt.Sprintf("%s #%d of %s failed with an injected error but the request succeeded", f.Op, f.K, f.Actor), Facts: fct})
		} else if !exposes(cs.Err, f) {
			vs = append(vs, Violation{Rule: "C20.masked", Detail: fmt.Sprintf("%s #%d of %s failed but the returned error does not expose it: %v", f.Op, f.K, f.Actor, cs.Err), Facts: fct})
		}
		if method == "prefer_sack" && !strings.HasSuffix(f.Actor, ".2") {
			for _, ep := range out.W.Eps {
				if ep.Actor == f.Actor+".2" {
					vs = append(vs, Violation{Rule: "C20.masked", Detail: fmt.Sprintf("%s #%d of the SACK attempt failed (not a capability problem) and a SYN fallback was started", f.Op, f.K), Facts: fct})
				}
			}
		}
	}
	// fault-free, capable target: a SACK trace (ACK|PSH probes) must be the outcome of sack/prefer_sack
	if (method == "sack" || method == "prefer_sack") && (capb == "ok" || capb == "ok-ts") && len(firedOnRun) == 0 {
		if cs.Err != nil {
			vs = append(vs, Violation{Rule: "C20.masked", Detail: fmt.Sprintf("capable target, no injected fault, but the request failed: %v", cs.Err), Facts: fct})
		} else if ackProbes["run"] == 0 {
			vs = append(vs, Violation{Rule: "C20.masked", Detail: "capable target but no SACK probe was sent", Facts: fct})
		}
	}
	return vs
}

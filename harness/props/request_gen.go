package props

import (
	"fmt"
	"math/rand/v2"

	"verifharness/sim"
)

// requestOpts tunes the generator of whole requests (traceroute.RunTraceroute / HTTP handler).
type requestOpts struct {
	protocols     []string // "udp","udp6","icmp","icmp6","tcp-syn","tcp-sack","tcp-prefer","tcp-paris"
	queriesMin    int
	queriesMax    int
	e2eMax        int
	delays        bool
	publicIP      float64
	reverseDNS    float64
	skipPrivate   float64
	privateHops   bool
	handler       float64
	silentProb    float64
	bigE2E        float64
	targetTE      bool    // the target itself may answer a probe with time-exceeded (no proof of arrival except for UDP/SACK)
	privateTarget float64 // chance that the destination itself has a private address (not for SACK: its listener lives on loopback)
}

var allRequestProtocols = []string{"udp", "udp6", "icmp", "icmp6", "tcp-syn", "tcp-sack", "tcp-prefer", "tcp-paris"}

func variantForRequest(p string) Variant {
	switch p {
	case "udp":
		return Variant{Entry: "udp"}
	case "udp6":
		return Variant{Entry: "udp", V6: true}
	case "icmp":
		return Variant{Entry: "icmp"}
	case "icmp6":
		return Variant{Entry: "icmp", V6: true}
	case "tcp-syn":
		return Variant{Entry: "tcp"}
	case "tcp-paris":
		return Variant{Entry: "tcp", Paris: true}
	case "tcp-sack", "tcp-prefer":
		return Variant{Entry: "sack", Loosen: true}
	}
	panic(p)
}

// genRequestCall draws the request parameters; flows are added by genRequestFlows.
func genRequestCall(rng *rand.Rand, o *requestOpts) (sim.Call, string) {
	protos := o.protocols
	if len(protos) == 0 {
		protos = allRequestProtocols
	}
	p := pick(rng, protos...)
	v := variantForRequest(p)
	c := sim.Call{Entry: "run_traceroute"}
	switch p {
	case "udp", "udp6":
		c.Protocol = "udp"
	case "icmp", "icmp6":
		c.Protocol = "icmp"
	case "tcp-syn":
		c.Protocol, c.Method = "tcp", pick(rng, "syn", "")
	case "tcp-paris":
		c.Protocol, c.Method, c.Paris = "tcp", "syn", true
	case "tcp-sack":
		c.Protocol, c.Method = "tcp", "sack"
	case "tcp-prefer":
		c.Protocol, c.Method = "tcp", "prefer_sack"
	}
	c.WantV6 = v.V6
	c.Target = v.target(0)
	if v.Entry != "sack" && chance(rng, o.privateTarget) {
		if v.V6 {
			c.Target = pick(rng, "fc00::1", "fdff:ffff:ffff:ffff:ffff:ffff:ffff:fffe", "fd12:3456::1")
		} else {
			c.Target = pick(rng, "10.0.0.1", "10.255.255.254", "172.16.0.1", "172.31.255.254", "192.168.0.1", "192.168.255.254")
		}
	}
	if v.V6 && chance(rng, 0.5) {
		c.Target = "[" + c.Target + "]"
	}
	c.Port = pick(rng, 0, 33434, 443, 8080)
	c.MinTTL = pick(rng, 1, 1, 1, 2, 3)
	c.MaxTTL = c.MinTTL + between(rng, 0, 6)
	c.TimeoutMs = pick(rng, 300, 500, 1000)
	c.DelayMs = pick(rng, 0, 1, 5, 10, 50)
	if o.delays {
		c.TimeoutMs = pick(rng, 500, 1000, 3000)
	}
	c.Queries = between(rng, o.queriesMin, o.queriesMax)
	c.E2E = between(rng, 0, o.e2eMax)
	if chance(rng, o.bigE2E) {
		c.E2E = 50
	}
	c.PublicIP = chance(rng, o.publicIP)
	c.ReverseDNS = chance(rng, o.reverseDNS)
	c.SkipPrivate = chance(rng, o.skipPrivate)
	return c, p
}

// genRequestScenario draws a whole-request scenario with one flow per run and per e2e probe.
func genRequestScenario(prop string, rng *rand.Rand, o requestOpts) *sim.Scenario {
	c, p := genRequestCall(rng, &o)
	sc := &sim.Scenario{Property: prop}
	v := variantForRequest(p)
	if v.Entry == "sack" {
		lisPort := c.Port
		if lisPort == 0 {
			lisPort = 33434
		}
		lis := sim.Listener{Addr: c.Target, Port: lisPort, Permitted: true, Timestamps: chance(rng, 0.5), ISN: rng.Uint32(), ServerSeq: rng.Uint32(), OptLayout: pick(rng, "", "", "bsd", "win", "tsfirst", "sacklast")}
		// a SYN-ACK that takes a while: every run of the request has its capture handle open by then and
		// sees the SYN-ACKs of all of them
		if chance(rng, 0.15) {
			lis.SynAckDupUs = int64(pick(rng, 300, 5000, 30000, 120000))
		}
		lis.SynAckDelayUs = int64(pick(rng, 0, between(rng, 1, 3000), between(rng, 1, 3000), between(rng, 1000, 60000)))
		sc.Listeners = append(sc.Listeners, lis)
		c.Listener = 1
	}
	sc.Calls = append(sc.Calls, c)
	addRequestFlows(rng, sc, &o, p)
	sc.Knobs.RandSeed = int64(rng.Uint32())
	sc.Tape = tape(rng, 64)
	return sc
}

// toHandler turns call 0 of a request scenario into the same request made through the HTTP handler
// (which has no first-TTL and no delay parameter) and regenerates the flows accordingly.
func toHandler(rng *rand.Rand, sc *sim.Scenario, o *requestOpts) {
	c := &sc.Calls[0]
	c.Entry = "http_handler"
	c.MinTTL = 1
	c.DelayMs = 50
	sc.Flows = nil
	p := "udp"
	switch {
	case c.Protocol == "icmp" && c.WantV6:
		p = "icmp6"
	case c.Protocol == "icmp":
		p = "icmp"
	case c.Protocol == "tcp" && c.Method == "sack":
		p = "tcp-sack"
	case c.Protocol == "tcp" && c.Method == "prefer_sack":
		p = "tcp-prefer"
	case c.Protocol == "tcp":
		p = "tcp-syn"
	case c.WantV6:
		p = "udp6"
	}
	c.Paris = false
	addRequestFlows(rng, sc, o, p)
	// the usual spellings of a boolean in a query string (drawn apart from the scenario's own stream)
	c.BoolStyle = pick(rand.New(rand.NewPCG(uint64(sc.Knobs.RandSeed), 43)), 0, 0, 0, 1, 1, 2, 3)
}

func bareTarget(t string) string {
	if len(t) > 0 && t[0] == '[' {
		return t[1 : len(t)-1]
	}
	return t
}

// addRequestFlows adds the network behaviour for every run and e2e probe of call 0.
func addRequestFlows(rng *rand.Rand, sc *sim.Scenario, o *requestOpts, p string) {
	c := &sc.Calls[0]
	v := variantForRequest(p)
	wo := &wireOpts{variants: []Variant{v}, silentProb: o.silentProb, overtake: o.delays, noDest: 0.15, wellTimed: true, destForms: o.targetTE}
	if o.silentProb == 0 {
		wo.silentProb = 0.2
	}
	cc := *c
	cc.Target = bareTarget(c.Target)
	cc.PollMs = 100
	if cc.Port == 0 {
		cc.Port = 33434
	}
	mkflow := func(fi int, actor string, minTTL int) sim.Flow {
		c2 := cc
		c2.MinTTL = minTTL
		dest := 0
		if !chance(rng, wo.noDest) {
			dest = between(rng, 1, cc.MaxTTL)
		}
		vv := v
		if p == "tcp-syn" || p == "tcp-paris" || actor[:3] == "e2e" && v.Entry == "sack" {
			vv = Variant{Entry: "tcp", Paris: c.Paris}
		}
		if vv.Entry == "sack" {
			c2.DelayMs = 10
		}
		f := genFlow(rng, wo, vv, &c2, fi, actor, dest)
		if vv.Entry == "tcp" {
			// keep the serial engine's histories well-timed
			lim := int64(cc.TimeoutMs-100)*1000 - 1000
			for hi := range f.Hops {
				for ri := range f.Hops[hi].Replies {
					r := &f.Hops[hi].Replies[ri]
					if r.DelayUs > lim {
						r.DelayUs = int64(between(rng, 50, int(lim)))
					}
					r.Dup = 0
				}
			}
		}
		if o.privateHops {
			privatise(rng, &f, v.V6, cc.Target)
		}
		return f
	}
	fi := 0
	for q := 1; q <= c.Queries; q++ {
		sc.Flows = append(sc.Flows, mkflow(fi, fmt.Sprintf("run#%d", q), c.MinTTL))
		fi++
	}
	for e := 1; e <= c.E2E; e++ {
		sc.Flows = append(sc.Flows, mkflow(fi, fmt.Sprintf("e2e#%d", e), c.MaxTTL))
		fi++
	}
}

// privateAddrs are the block edges (and their public neighbours) C17 quantifies over.
var privateV4 = []string{"10.0.0.0", "10.0.0.1", "10.255.255.255", "172.16.0.0", "172.16.0.1", "172.31.255.255", "192.168.0.0", "192.168.0.1", "192.168.255.255"}
var publicNearV4 = []string{"9.255.255.255", "11.0.0.0", "172.15.255.255", "172.32.0.0", "192.167.255.255", "192.169.0.0", "100.64.0.1", "169.254.1.1"}
var privateV6 = []string{"fc00::", "fc00::1", "fdff:ffff:ffff:ffff:ffff:ffff:ffff:ffff", "fd12:3456::1", "::ffff:10.0.0.1", "::ffff:192.168.1.1", "::ffff:172.16.0.1"}
var publicNearV6 = []string{"fbff:ffff:ffff:ffff:ffff:ffff:ffff:ffff", "fe00::", "::ffff:11.0.0.1", "::ffff:172.32.0.1", "2001:db8::5"}

func privatise(rng *rand.Rand, f *sim.Flow, v6 bool, target string) {
	for i := range f.Hops {
		h := &f.Hops[i]
		if h.From == target || !chance(rng, 0.6) {
			continue
		}
		switch {
		case v6 && chance(rng, 0.6):
			h.From = pick(rng, privateV6...)
		case v6:
			h.From = pick(rng, publicNearV6...)
		case chance(rng, 0.6):
			h.From = pick(rng, privateV4...)
		default:
			h.From = pick(rng, publicNearV4...)
		}
	}
}

package harness

import (
	"encoding/json"
	"testing"

	"verifharness/props"
	"verifharness/sim"
)

// shrink greedily minimises a failing scenario: a step is kept only if the same oracle rule
// still fails. Structure-aware (DESIGN 2.7): drop unrelated traffic, faults, replies, hops,
// lower the TTL range and the request counts, canonicalise forms and delays, zero the tape.
func shrink(t *testing.T, p props.Property, sc *sim.Scenario, v props.Violation, budget int) (*sim.Scenario, props.Violation, int) {
	cur := sc.Clone()
	curV := v
	used := 0
	try := func(c *sim.Scenario) bool {
		if used >= budget {
			return false
		}
		used++
		out := execute(t, c, false)
		for _, v2 := range p.Check(out, &props.RunInfo{}) {
			if ruleFamily(v2.Rule) == ruleFamily(v.Rule) {
				cur, curV = c, v2
				return true
			}
		}
		return false
	}
	for progress := true; progress && used < budget; {
		progress = false
		// unrelated traffic
		if len(cur.Noise) > 0 {
			c := cur.Clone()
			c.Noise = nil
			if try(c) {
				progress = true
			} else {
				for i := len(cur.Noise) - 1; i >= 0 && i < len(cur.Noise); i-- {
					c := cur.Clone()
					c.Noise = append(c.Noise[:i], c.Noise[i+1:]...)
					if try(c) {
						progress = true
					}
				}
			}
		}
		for i := len(cur.Faults) - 1; i >= 0 && i < len(cur.Faults); i-- {
			c := cur.Clone()
			c.Faults = append(c.Faults[:i], c.Faults[i+1:]...)
			if try(c) {
				progress = true
			}
		}
		// trailing calls (and their flows) — indices of the remaining calls are unchanged
		for len(cur.Calls) > 1 {
			c := cur.Clone()
			last := len(c.Calls) - 1
			c.Calls = c.Calls[:last]
			if !try(c) {
				break
			}
			progress = true
		}
		// request counts
		for ci := range cur.Calls {
			for cur.Calls[ci].Queries > 1 {
				c := cur.Clone()
				c.Calls[ci].Queries--
				if !try(c) {
					break
				}
				progress = true
			}
			for cur.Calls[ci].E2E > 0 {
				c := cur.Clone()
				c.Calls[ci].E2E--
				if !try(c) {
					break
				}
				progress = true
			}
			for _, f := range []func(*sim.Call){
				func(c *sim.Call) { c.ReverseDNS = false },
				func(c *sim.Call) { c.PublicIP = false },
				func(c *sim.Call) { c.SkipPrivate = false },
				func(c *sim.Call) { c.CancelAtUs = 0 },
				func(c *sim.Call) { c.Repeat = 0 },
			} {
				c := cur.Clone()
				before, _ := jsonOf(c.Calls[ci])
				f(&c.Calls[ci])
				after, _ := jsonOf(c.Calls[ci])
				if before != after && try(c) {
					progress = true
				}
			}
		}
		// TTL range
		for ci := range cur.Calls {
			for cur.Calls[ci].MaxTTL > cur.Calls[ci].MinTTL && cur.Calls[ci].MaxTTL <= 255 && cur.Calls[ci].MinTTL >= 1 {
				c := cur.Clone()
				mid := (c.Calls[ci].MaxTTL + c.Calls[ci].MinTTL) / 2
				c.Calls[ci].MaxTTL = mid
				if try(c) {
					progress = true
					continue
				}
				c = cur.Clone()
				c.Calls[ci].MaxTTL--
				if !try(c) {
					break
				}
				progress = true
			}
			for cur.Calls[ci].MinTTL > 1 && cur.Calls[ci].MinTTL <= cur.Calls[ci].MaxTTL {
				c := cur.Clone()
				c.Calls[ci].MinTTL = 1
				if !try(c) {
					break
				}
				progress = true
			}
		}
		// flows: delta-debugging over the hop plans first (halves, quarters, ...), so that long TTL
		// ranges collapse in a few steps
		for fi := range cur.Flows {
			for chunk := len(cur.Flows[fi].Hops) / 2; chunk >= 2; chunk /= 2 {
				for start := 0; start < len(cur.Flows[fi].Hops); {
					c := cur.Clone()
					h := c.Flows[fi].Hops
					end := start + chunk
					if end > len(h) {
						end = len(h)
					}
					c.Flows[fi].Hops = append(append([]sim.HopPlan(nil), h[:start]...), h[end:]...)
					if try(c) {
						progress = true
						continue // same start: the list shifted left
					}
					start += chunk
				}
			}
		}
		// flows: whole hop plans, then single replies
		for fi := range cur.Flows {
			for hi := len(cur.Flows[fi].Hops) - 1; hi >= 0 && hi < len(cur.Flows[fi].Hops); hi-- {
				c := cur.Clone()
				c.Flows[fi].Hops = append(c.Flows[fi].Hops[:hi], c.Flows[fi].Hops[hi+1:]...)
				if try(c) {
					progress = true
					continue
				}
				for ri := len(cur.Flows[fi].Hops[hi].Replies) - 1; ri >= 0 && ri < len(cur.Flows[fi].Hops[hi].Replies); ri-- {
					c := cur.Clone()
					h := &c.Flows[fi].Hops[hi]
					h.Replies = append(h.Replies[:ri], h.Replies[ri+1:]...)
					if try(c) {
						progress = true
					}
				}
			}
			if len(cur.Flows[fi].ProbeLoss) > 0 {
				c := cur.Clone()
				c.Flows[fi].ProbeLoss = nil
				if try(c) {
					progress = true
				}
			}
		}
		// scripted engine
		for ci := range cur.Calls {
			if cur.Calls[ci].Script == nil {
				continue
			}
			for ri := len(cur.Calls[ci].Script.Responses) - 1; ri >= 0 && ri < len(cur.Calls[ci].Script.Responses); ri-- {
				c := cur.Clone()
				s := c.Calls[ci].Script
				s.Responses = append(s.Responses[:ri], s.Responses[ri+1:]...)
				if try(c) {
					progress = true
				}
			}
			if cur.Calls[ci].Script.RetryableEvery != 0 {
				c := cur.Clone()
				c.Calls[ci].Script.RetryableEvery = 0
				if try(c) {
					progress = true
				}
			}
		}
		// services
		if len(cur.DNS) > 0 {
			for i := len(cur.DNS) - 1; i >= 0 && i < len(cur.DNS); i-- {
				c := cur.Clone()
				c.DNS = append(c.DNS[:i], c.DNS[i+1:]...)
				if try(c) {
					progress = true
				}
			}
		}
	}
	// canonicalise (one pass; each kept only if the rule still fails)
	canon := []func(*sim.Scenario) bool{
		func(c *sim.Scenario) bool { ch := len(c.Tape) > 0; c.Tape = nil; return ch },
		func(c *sim.Scenario) bool {
			ch := c.Knobs.CaptureOutgoing || c.Knobs.SetPacketIDBase || c.Knobs.SetEchoIDBase || c.Knobs.IgnoreFilters
			c.Knobs.CaptureOutgoing, c.Knobs.SetPacketIDBase, c.Knobs.SetEchoIDBase, c.Knobs.IgnoreFilters = false, false, false, false
			return ch
		},
		func(c *sim.Scenario) bool {
			ch := false
			for fi := range c.Flows {
				for hi := range c.Flows[fi].Hops {
					for ri := range c.Flows[fi].Hops[hi].Replies {
						r := &c.Flows[fi].Hops[hi].Replies[ri]
						if r.Dup != 0 {
							r.Dup, ch = 0, true
						}
					}
				}
			}
			return ch
		},
		func(c *sim.Scenario) bool {
			ch := false
			for fi := range c.Flows {
				for hi := range c.Flows[fi].Hops {
					for ri := range c.Flows[fi].Hops[hi].Replies {
						r := &c.Flows[fi].Hops[hi].Replies[ri]
						if r.DelayUs > 1000 && r.DelayUs%1000 != 0 {
							r.DelayUs, ch = r.DelayUs/1000*1000, true
						}
					}
				}
			}
			return ch
		},
		func(c *sim.Scenario) bool {
			ch := false
			for fi := range c.Flows {
				for hi := range c.Flows[fi].Hops {
					for ri := range c.Flows[fi].Hops[hi].Replies {
						r := &c.Flows[fi].Hops[hi].Replies[ri]
						switch r.Form {
						case "teFull", "te4884", "teOpt", "teRewr":
							if r.Perturb == "" && r.Garbage == "" {
								r.Form, ch = "te28", true
							}
						}
					}
				}
			}
			return ch
		},
		func(c *sim.Scenario) bool {
			ch := false
			for ci := range c.Calls {
				if c.Calls[ci].DelayMs > 1 {
					c.Calls[ci].DelayMs, ch = 1, true
				}
			}
			return ch
		},
	}
	for _, f := range canon {
		c := cur.Clone()
		if f(c) {
			try(c)
		}
	}
	return cur, curV, used
}

func jsonOf(c sim.Call) (string, error) {
	b, err := json.Marshal(c)
	return string(b), err
}

// ruleFamily strips the detail suffix of a rule id ("C01.perturbed-accepted:seqHi" ->
// "C01.perturbed-accepted"): while shrinking, the culprit packet may change its label, the rule
// that fails may not.
func ruleFamily(r string) string {
	for i := 0; i < len(r); i++ {
		if r[i] == ':' {
			return r[:i]
		}
	}
	return r
}

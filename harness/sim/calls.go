package sim

import (
	"context"
	"fmt"
	"net"
	"net/http"
	"net/http/httptest"
	"net/netip"
	"net/url"
	"runtime/debug"
	"strconv"
	"sync"
	"time"

	"github.com/cenkalti/backoff/v5"

	"github.com/DataDog/datadog-traceroute/common"
	"github.com/DataDog/datadog-traceroute/icmp"
	"github.com/DataDog/datadog-traceroute/packets"
	"github.com/DataDog/datadog-traceroute/publicip"
	"github.com/DataDog/datadog-traceroute/result"
	"github.com/DataDog/datadog-traceroute/reversedns"
	"github.com/DataDog/datadog-traceroute/sack"
	"github.com/DataDog/datadog-traceroute/server"
	"github.com/DataDog/datadog-traceroute/tcp"
	"github.com/DataDog/datadog-traceroute/traceroute"
	"github.com/DataDog/datadog-traceroute/udp"
)

type callerKey struct{}

// Iter is the outcome of one iteration of a repeated service call.
type Iter struct {
	StartAt, EndAt                  time.Duration
	IP                              string
	Names                           map[string][]string
	Err                             error
	DNSCallsBefore, DNSCallsAfter   int
	HTTPDialsBefore, HTTPDialsAfter int
	// DNSCallsDuring / DialsDuring count the resolver calls / provider dials made by this caller's
	// own goroutine tree during the iteration (attributed by goroutine for DNS, by time window for
	// HTTP dials, which happen on the caller's goroutine inside net/http).
	DNSCallsDuring int
	DialsDuring    int
}

// CallState is a call and, once it has returned, its outcome.
type CallState struct {
	Idx int
	C   *Call

	Started, Finished bool
	StartAt, EndAt    time.Duration
	CancelledAt       time.Duration // >0 when the context was cancelled by the scenario
	cancel            context.CancelFunc

	Run          *result.TracerouteRun
	Results      *result.Results
	Resp         []*common.ProbeResponse
	Hops         []*result.TracerouteHop // engine entries: ToHops of Resp
	HopsErr      error
	Err          error
	Panic        string
	HTTPStatus   int
	HTTPBody     []byte
	Iters        []Iter
	Enriched     *result.Results
	Driver       *scriptDriver
	Alloc        [][]uint16
	Params       *traceroute.TracerouteParams
	ResolvedPort int
}

func (c *Call) ttlParams() common.TracerouteParams {
	poll := c.PollMs
	if poll == 0 {
		poll = 100
	}
	return common.TracerouteParams{
		MinTTL:            uint8(c.MinTTL),
		MaxTTL:            uint8(c.MaxTTL),
		TracerouteTimeout: time.Duration(c.TimeoutMs) * time.Millisecond,
		PollFrequency:     time.Duration(poll) * time.Millisecond,
		SendDelay:         time.Duration(c.DelayMs) * time.Millisecond,
	}
}

func (w *World) resolvePort(c *Call) int {
	if c.Listener > 0 && c.Listener <= len(w.Lis) {
		return int(w.Lis[c.Listener-1].Addr.Port())
	}
	return c.Port
}

func (w *World) startCall(ci int) {
	cs := w.Calls[ci]
	cs.Started = true
	cs.StartAt = w.now()
	ctx, cancel := context.WithCancel(context.WithValue(context.Background(), callerKey{}, "c"+strconv.Itoa(ci)))
	cs.cancel = cancel
	if cs.C.PreCancelled {
		cancel()
		cs.CancelledAt = max(cs.StartAt, 1)
		w.stat("fault.cancel.before-the-call")
	} else if cs.C.CancelAtUs > 0 {
		w.schedule(event{at: time.Duration(cs.C.CancelAtUs) * time.Microsecond, kind: "cancel", call: ci})
	}
	w.Log.add(cs.StartAt, "c"+strconv.Itoa(ci), "start", cs.C.Entry)
	go func() {
		w.registerGID("c" + strconv.Itoa(ci))
		defer func() {
			if r := recover(); r != nil {
				cs.Panic = fmt.Sprintf("%v\n%s", r, debug.Stack())
			}
			cs.EndAt = w.now()
			cs.Finished = true
			cancel()
			w.signal()
		}()
		w.runCall(ctx, cs)
	}()
}

func (w *World) runCall(ctx context.Context, cs *CallState) {
	c := cs.C
	port := w.resolvePort(c)
	cs.ResolvedPort = port
	switch c.Entry {
	case "icmp":
		p := icmp.Params{Target: mustAddr(c.Target), ParallelParams: common.TracerouteParallelParams{TracerouteParams: c.ttlParams()}}
		cs.Run, cs.Err = icmp.RunICMPTraceroute(ctx, p)
	case "udp":
		u := udp.NewUDPv4(net.IP(mustAddr(c.Target).AsSlice()), uint16(port), uint8(c.MinTTL), uint8(c.MaxTTL),
			time.Duration(c.DelayMs)*time.Millisecond, time.Duration(c.TimeoutMs)*time.Millisecond, false)
		u.LoosenICMPSrc = c.Loosen
		cs.Run, cs.Err = u.Traceroute()
	case "tcp":
		t := tcp.NewTCPv4(net.IP(mustAddr(c.Target).AsSlice()), uint16(port), uint8(c.MinTTL), uint8(c.MaxTTL),
			time.Duration(c.DelayMs)*time.Millisecond, time.Duration(c.TimeoutMs)*time.Millisecond, c.Paris, false)
		t.LoosenICMPSrc = c.Loosen
		cs.Run, cs.Err = t.Traceroute()
	case "sack":
		p := sack.Params{
			Target:           netip.AddrPortFrom(mustAddr(c.Target), uint16(port)),
			HandshakeTimeout: time.Duration(c.HandshakeTimeoutMs) * time.Millisecond,
			FinTimeout:       time.Duration(c.FinTimeoutMs) * time.Millisecond,
			ParallelParams:   common.TracerouteParallelParams{TracerouteParams: c.ttlParams()},
			LoosenICMPSrc:    c.Loosen,
		}
		cs.Run, cs.Err = sack.RunSackTraceroute(ctx, p)
	case "run_traceroute":
		p := traceroute.TracerouteParams{
			Hostname: c.Target, Port: port, Protocol: c.Protocol, MinTTL: c.MinTTL, MaxTTL: c.MaxTTL, Delay: c.DelayMs,
			Timeout: time.Duration(c.TimeoutMs) * time.Millisecond, TCPMethod: traceroute.TCPMethod(c.Method), WantV6: c.WantV6,
			TCPSynParisTracerouteMode: c.Paris, ReverseDns: c.ReverseDNS, CollectSourcePublicIP: c.PublicIP,
			TracerouteQueries: c.Queries, E2eQueries: c.E2E, SkipPrivateHops: c.SkipPrivate,
		}
		cs.Params = &p
		cs.Results, cs.Err = traceroute.NewTraceroute().RunTraceroute(ctx, p)
	case "http_handler":
		q := c.RawQuery
		if q == "" {
			v := url.Values{}
			v.Set("target", c.Target)
			v.Set("protocol", c.Protocol)
			v.Set("port", strconv.Itoa(port))
			v.Set("traceroute-queries", strconv.Itoa(c.Queries))
			v.Set("max-ttl", strconv.Itoa(c.MaxTTL))
			v.Set("timeout", strconv.Itoa(c.TimeoutMs))
			if c.Method != "" {
				v.Set("tcp-method", c.Method)
			}
			v.Set("e2e-queries", strconv.Itoa(c.E2E))
			fb := func(b bool) string {
				t, f := [...]string{"true", "1", "TRUE", "True"}, [...]string{"false", "0", "FALSE", "False"}
				if b {
					return t[c.BoolStyle%4]
				}
				return f[c.BoolStyle%4]
			}
			v.Set("ipv6", fb(c.WantV6))
			v.Set("reverse-dns", fb(c.ReverseDNS))
			v.Set("source-public-ip", fb(c.PublicIP))
			v.Set("skip-private-hops", fb(c.SkipPrivate))
			q = v.Encode()
		}
		req := httptest.NewRequest(http.MethodGet, "/traceroute?"+q, nil).WithContext(ctx)
		rec := httptest.NewRecorder()
		server.NewServer().TracerouteHandler(rec, req)
		cs.HTTPStatus = rec.Code
		cs.HTTPBody = rec.Body.Bytes()
	case "engine_parallel", "engine_serial":
		d := &scriptDriver{w: w, actor: "c" + strconv.Itoa(cs.Idx), sc: c.Script, handed: make([]bool, len(c.Script.Responses))}
		cs.Driver = d
		w.drivers = append(w.drivers, d)
		tp := c.ttlParams()
		if c.Entry == "engine_parallel" {
			cs.Resp, cs.Err = common.TracerouteParallel(ctx, d, common.TracerouteParallelParams{TracerouteParams: tp})
		} else {
			cs.Resp, cs.Err = common.TracerouteSerial(ctx, d, common.TracerouteSerialParams{TracerouteParams: tp})
		}
		if cs.Err == nil {
			cs.Hops, cs.HopsErr = common.ToHops(tp, cs.Resp)
		}
	case "get_public_ip":
		client := &http.Client{Transport: http.DefaultTransport.(*http.Transport).Clone()}
		pol := backoff.NewExponentialBackOff()
		pol.InitialInterval = time.Duration(max(c.RetryMs, 1)) * time.Millisecond
		pol.RandomizationFactor = 0
		pol.Multiplier = 2
		pol.MaxInterval = 3 * time.Second
		w.iterate(cs, func(it *Iter) {
			ip, err := publicip.GetPublicIP(ctx, client, pol)
			it.Err = err
			if ip != nil {
				it.IP = ip.String()
			}
		})
	case "fetcher_get_ip":
		f := publicip.NewPublicIPFetcher()
		w.iterate(cs, func(it *Iter) {
			ip, err := f.GetIP(ctx)
			it.Err = err
			if ip != nil {
				it.IP = ip.String()
			}
		})
	case "reverse_dns":
		w.iterate(cs, func(it *Iter) {
			it.Names = map[string][]string{}
			if len(c.Addrs) == 1 {
				names, err := reversedns.GetReverseDns(c.Addrs[0])
				it.Err = err
				if err == nil {
					it.Names[c.Addrs[0]] = names
				}
				return
			}
			var ips []net.IP
			for _, a := range c.Addrs {
				ips = append(ips, net.IP(mustAddr(a).AsSlice()))
			}
			m, err := reversedns.GetReverseDnsForIPs(ips)
			it.Err = err
			for k, v := range m {
				a, _ := netip.AddrFromSlice([]byte(k))
				it.Names[a.String()] = v
			}
		})
	case "enrich":
		r := &result.Results{}
		run := result.TracerouteRun{}
		if c.Target != "" {
			run.Destination.IPAddress = net.IP(mustAddr(c.Target).AsSlice())
		}
		for _, h := range c.Hops {
			hop := &result.TracerouteHop{TTL: h.TTL}
			if h.Addr != "" {
				hop.IPAddress = net.IP(mustAddr(h.Addr).AsSlice())
			}
			run.Hops = append(run.Hops, hop)
		}
		r.Traceroute.Runs = append(r.Traceroute.Runs, run)
		// further runs of the same request, each with its own destination address (a name that
		// resolves differently per run) and the same hops
		for _, d := range c.Addrs {
			r2 := result.TracerouteRun{}
			r2.Destination.IPAddress = net.IP(mustAddr(d).AsSlice())
			for _, h := range run.Hops {
				cp := *h
				r2.Hops = append(r2.Hops, &cp)
			}
			r.Traceroute.Runs = append(r.Traceroute.Runs, r2)
		}
		r.EnrichWithReverseDns()
		cs.Enriched = r
	case "alloc_stress":
		// Queries goroutines each allocate E2E identifier ranges of MaxTTL identifiers, freely
		// interleaved by the Go scheduler (no seam inside the allocator)
		res := make([][]uint16, c.Queries)
		var wg sync.WaitGroup
		for g := 0; g < c.Queries; g++ {
			wg.Add(1)
			go func(g int) {
				defer wg.Done()
				for k := 0; k < c.E2E; k++ {
					res[g] = append(res[g], packets.AllocPacketID(uint8(c.MaxTTL)))
				}
			}(g)
		}
		wg.Wait()
		cs.Alloc = res
	case "sleep":
		time.Sleep(time.Duration(c.GapUs) * time.Microsecond)
	default:
		panic("unknown entry " + c.Entry)
	}
}

func (w *World) iterate(cs *CallState, f func(it *Iter)) {
	n := cs.C.Repeat
	if n < 1 {
		n = 1
	}
	for i := 0; i < n; i++ {
		if i > 0 && cs.C.GapUs > 0 {
			time.Sleep(time.Duration(cs.C.GapUs) * time.Microsecond)
		}
		// a yield seam orders this iteration against the other actors and lets the scheduler
		// take consistent before/after snapshots of the service call counters
		w.park(&op{kind: opYield, actor: "c" + strconv.Itoa(cs.Idx)})
		it := Iter{StartAt: w.now()}
		it.DNSCallsBefore, it.HTTPDialsBefore = w.svcCounts()
		f(&it)
		w.park(&op{kind: opYield, actor: "c" + strconv.Itoa(cs.Idx)})
		it.EndAt = w.now()
		it.DNSCallsAfter, it.HTTPDialsAfter = w.svcCounts()
		me := "c" + strconv.Itoa(cs.Idx)
		for _, d := range w.dns.Calls[it.DNSCallsBefore:it.DNSCallsAfter] {
			if d.Caller == me {
				it.DNSCallsDuring++
			}
		}
		for _, c := range w.httpSt.Conns[it.HTTPDialsBefore:it.HTTPDialsAfter] {
			if c.Caller == me {
				it.DialsDuring++
			}
		}
		cs.Iters = append(cs.Iters, it)
	}
}

func (w *World) svcCounts() (int, int) {
	w.mu.Lock()
	defer w.mu.Unlock()
	return len(w.dns.Calls), len(w.httpSt.Conns)
}

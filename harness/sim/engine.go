package sim

import (
	"errors"
	"net/netip"
	"os"
	"strconv"
	"time"

	"github.com/DataDog/datadog-traceroute/common"
)

// DrvSend is one SendProbe call on the scripted driver.
type DrvSend struct {
	TTL           int
	CallAt, RelAt time.Duration
	RelSeq        uint64
	Failed        bool
}

// DrvHand is one response handed out by ReceiveProbe of the scripted driver.
type DrvHand struct {
	Resp          int // index into the script's responses
	At            time.Duration
	Seq           uint64
	SendParked    bool // a SendProbe call was parked (in flight) at that moment
	SendsReleased int  // number of sends released before this hand-out
}

type scriptDriver struct {
	w          *World
	actor      string
	sc         *EngineScript
	Sends      []*DrvSend
	Handed     []DrvHand
	handed     []bool
	RecvN      int
	Timeouts   int
	Retryables int
}

var _ common.TracerouteDriver = (*scriptDriver)(nil)

func (d *scriptDriver) GetDriverInfo() common.TracerouteDriverInfo {
	return common.TracerouteDriverInfo{SupportsParallel: !d.sc.NoParallel}
}

func (d *scriptDriver) SendProbe(ttl uint8) error {
	r := d.w.park(&op{kind: opDrvSend, actor: d.actor + ".s", drv: d, ttl: int(ttl)})
	if r.stall > 0 {
		time.Sleep(r.stall)
	}
	return r.err
}

func (d *scriptDriver) ReceiveProbe(timeout time.Duration) (*common.ProbeResponse, error) {
	r := d.w.park(&op{kind: opDrvRecv, actor: d.actor + ".r", drv: d, poll: timeout})
	if r.err != nil {
		return nil, r.err
	}
	return r.resp.(*common.ProbeResponse), nil
}

func (d *scriptDriver) sendRel(ttl int) (time.Duration, bool) {
	if ttl == 0 {
		if len(d.Sends) > 0 {
			return d.Sends[0].RelAt, true
		}
		return 0, false
	}
	for _, s := range d.Sends {
		if s.TTL == ttl && !s.Failed {
			return s.RelAt, true
		}
	}
	return 0, false
}

func (d *scriptDriver) eligible(now time.Duration) []int {
	var out []int
	for i := range d.sc.Responses {
		if d.handed[i] {
			continue
		}
		r := &d.sc.Responses[i]
		t, ok := d.sendRel(r.AfterSend)
		if ok && t+time.Duration(r.DelayUs)*time.Microsecond <= now {
			out = append(out, i)
		}
	}
	return out
}

func (d *scriptDriver) nextEligible(now time.Duration) time.Duration {
	next := time.Duration(-1)
	for i := range d.sc.Responses {
		if d.handed[i] {
			continue
		}
		r := &d.sc.Responses[i]
		if t, ok := d.sendRel(r.AfterSend); ok {
			t += time.Duration(r.DelayUs) * time.Microsecond
			if t > now && (next < 0 || t < next) {
				next = t
			}
		}
	}
	return next
}

func (d *scriptDriver) recvReleasable(o *op, now time.Duration) bool {
	if d.sc.RecvErrAfter > 0 && len(d.Handed) >= d.sc.RecvErrAfter {
		return true
	}
	if d.sc.RetryableEvery > 0 && (d.RecvN+1)%d.sc.RetryableEvery == 0 {
		return true
	}
	if len(d.eligible(now)) > 0 {
		return true
	}
	return now >= o.parkAt+o.poll
}

var errScriptFatal = errors.New("verif: scripted driver fatal error")

func (d *scriptDriver) perform(w *World, o *op, now time.Duration) {
	switch o.kind {
	case opDrvSend:
		w.Seq++
		s := &DrvSend{TTL: o.ttl, CallAt: o.parkAt, RelAt: now, RelSeq: w.Seq}
		d.Sends = append(d.Sends, s)
		w.Log.add(now, o.actor, "send", "ttl="+strconv.Itoa(o.ttl))
		if d.sc.SendErrAt == o.ttl {
			s.Failed = true
			w.stat("fault.drv.sendErr")
			w.release(o, opResult{err: errScriptFatal})
			return
		}
		if d.sc.SendStallTTL == o.ttl && d.sc.SendStallUs > 0 {
			w.stat("fault.drv.sendReturnStall")
			w.release(o, opResult{stall: time.Duration(d.sc.SendStallUs)*time.Microsecond + 333*time.Nanosecond})
			return
		}
		w.release(o, opResult{})
	case opDrvRecv:
		d.RecvN++
		if d.sc.RecvErrAfter > 0 && len(d.Handed) >= d.sc.RecvErrAfter {
			w.stat("fault.drv.recvErr")
			w.Log.add(now, o.actor, "recv", "FATAL")
			w.release(o, opResult{err: errScriptFatal})
			return
		}
		if d.sc.RetryableEvery > 0 && d.RecvN%d.sc.RetryableEvery == 0 {
			d.Retryables++
			w.stat("fault.drv.retryable")
			w.Log.add(now, o.actor, "recv", "retryable")
			w.release(o, opResult{err: &common.BadPacketError{Err: errors.New("verif: scripted bad packet")}})
			return
		}
		el := d.eligible(now)
		if len(el) == 0 {
			d.Timeouts++
			w.Log.add(now, o.actor, "recv", "timeout")
			w.release(o, opResult{err: &common.ReceiveProbeNoPktError{Err: os.ErrDeadlineExceeded}})
			return
		}
		i := el[w.choose(len(el))]
		d.handed[i] = true
		r := &d.sc.Responses[i]
		w.Seq++
		parked := false
		w.mu.Lock()
		for _, p := range w.parked {
			if p.kind == opDrvSend && p.drv == d {
				parked = true
			}
		}
		w.mu.Unlock()
		d.Handed = append(d.Handed, DrvHand{Resp: i, At: now, Seq: w.Seq, SendParked: parked, SendsReleased: len(d.Sends)})
		w.Log.add(now, o.actor, "recv", "resp"+strconv.Itoa(i))
		pr := &common.ProbeResponse{TTL: uint8(r.TTL), IP: netip.MustParseAddr(r.Addr), RTT: time.Duration(r.RTTUs) * time.Microsecond, IsDest: r.Dest}
		w.release(o, opResult{resp: pr})
	}
}

package sim

import (
	"math/rand/v2"
	"net/netip"
	"time"

	"verifharness/codec"

	"github.com/DataDog/datadog-traceroute/packets"
)

// SynAckPkt returns the id of the synthetic SYN-ACK of the connection this endpoint probes (-1: none).
func (ep *Endpoint) SynAckPkt() int {
	if ep.Conn == nil {
		return -1
	}
	return ep.Conn.synack
}

// frameNoise synthesises frames around the configuration of a freshly installed filter, drawn
// over the equivalence classes of the fields the filter programs inspect: ethertype, protocol,
// IHL 0..15, fragment bits, each address/port byte equal or different (sign and endianness
// patterns), all TCP flag bytes, IPv6 next-header chains, frame lengths around every load offset.
func (w *World) frameNoise(ep *Endpoint, spec packets.PacketFilterSpec, now time.Duration) {
	rng := rand.New(rand.NewPCG(uint64(w.Sc.Knobs.RandSeed)+uint64(ep.Idx)*977, uint64(len(ep.Filters))+13))
	src, dst := spec.FilterConfig.Src, spec.FilterConfig.Dst
	if !src.Addr().Is4() {
		src = netip.AddrPortFrom(netip.MustParseAddr("198.51.100.77"), 443)
	}
	if !dst.Addr().Is4() {
		dst = netip.AddrPortFrom(netip.MustParseAddr("192.0.2.2"), 40000+uint16(rng.IntN(1000)))
	}
	for i := 0; i < w.Sc.Knobs.FrameNoise; i++ {
		sa, da := src.Addr().As4(), dst.Addr().As4()
		sp, dp := src.Port(), dst.Port()
		proto := uint8(codec.ProtoTCP)
		flags := uint8(rng.IntN(256))
		opts := codec.V4Opts{ID: uint16(rng.Uint32()), Flags: 2}
		var ether uint16
		var b []byte
		// one class of one field (mut 0..9), or, for a third of the frames, an independent draw for
		// every field: the property quantifies over the product of the classes (an ICMP frame for
		// another address, a fragment with options and a foreign port, ...)
		mut := rng.IntN(14)
		combo := mut < 10 && rng.IntN(3) == 0
		on := func(k int) bool {
			if combo {
				return rng.IntN(4) == 0
			}
			return mut == k
		}
		if on(1) {
			sa[rng.IntN(4)] ^= pickByte(rng)
		}
		if on(2) {
			da[rng.IntN(4)] ^= pickByte(rng)
		}
		if on(3) {
			sp ^= uint16(pickByte(rng)) << (8 * uint(rng.IntN(2)))
		}
		if on(4) {
			dp ^= uint16(pickByte(rng)) << (8 * uint(rng.IntN(2)))
		}
		if on(5) {
			proto = []uint8{1, 17, 6, 58, 132, 0, 255, 1, 1}[rng.IntN(9)]
		}
		if on(6) {
			opts.FragOff = uint16([]int{1, 8, 0x1fff, 185}[rng.IntN(4)])
			opts.Flags = uint8(rng.IntN(4))
		} else if on(7) {
			opts.Flags = 1 // MF with offset 0: not decided by the property
		}
		if on(8) {
			n := 4 * (1 + rng.IntN(10))
			opts.Options = make([]byte, n)
			for k := range opts.Options {
				opts.Options[k] = 1
			}
		}
		if on(9) {
			ether = []uint16{0x86dd, 0x0806, 0x8100, 0x0800}[rng.IntN(4)]
		}
		if combo {
			mut = 20 // reported as its own class
		}
		seg := codec.TCPSeg{SrcPort: sp, DstPort: dp, Seq: rng.Uint32(), Ack: rng.Uint32(), Flags: flags, Window: 512}
		s4, d4 := netip.AddrFrom4(sa), netip.AddrFrom4(da)
		var l4 []byte
		switch proto {
		case 1:
			l4 = codec.ICMP(s4, d4, uint8(rng.IntN(20)), 0, [4]byte{}, []byte("xxxxxxxx"))
		default:
			l4 = codec.BuildTCP(s4, d4, seg)
		}
		b = codec.BuildIPv4(s4, d4, proto, 60, opts, l4)
		switch mut {
		case 10: // IHL nibble rewritten without moving anything (0..15): the programs then read
			// "ports" and "flags" from arbitrary header bytes, so nothing in this frame may depend on
			// kernel-chosen port numbers (not even through the TCP checksum)
			seg.SrcPort, seg.DstPort = 0x1234, 0x4321
			l4 = codec.BuildTCP(s4, d4, seg)
			l4[16], l4[17] = 0xab, 0xcd
			b = codec.BuildIPv4(s4, d4, codec.ProtoTCP, 60, opts, l4)
			b[0] = 0x40 | byte(rng.IntN(16))
		case 11: // truncated around the load offsets of the programs
			cut := []int{0, 9, 10, 19, 20, 21, 23, 24, 33, 34, 35, 36, 37, 38, 39}[rng.IntN(15)]
			if cut < len(b) {
				b = b[:cut]
			}
		case 12: // IPv6, directly ICMPv6 / fragment then ICMPv6 / fragment then other / other
			s6 := netip.MustParseAddr("2001:db8:5::1")
			d6 := netip.MustParseAddr("fd00::2")
			m := codec.ICMP(s6, d6, uint8(rng.IntN(4)), 0, [4]byte{}, []byte("yyyyyyyy"))
			switch rng.IntN(4) {
			case 0:
				b = codec.BuildIPv6(s6, d6, codec.ProtoICMPv6, 60, m)
			case 1:
				b = codec.BuildIPv6(s6, d6, codec.ProtoFrag6, 60, append([]byte{codec.ProtoICMPv6, 0, 0, 0, 0, 0, 0, 9}, m...))
			case 2:
				b = codec.BuildIPv6(s6, d6, codec.ProtoFrag6, 60, append([]byte{codec.ProtoTCP, 0, 0, 0, 0, 0, 0, 9}, m...))
			default:
				b = codec.BuildIPv6(s6, d6, uint8([]int{6, 17, 0, 43, 60}[rng.IntN(5)]), 60, m)
			}
		case 13: // a v6 packet under an IPv4 ethertype and vice versa
			ether = 0x86dd
		}
		id := w.inject(b, now+time.Duration(1+rng.IntN(5000))*time.Microsecond, PktOrigin{Noise: "frame", Copy: mut})
		w.Pkts[id].Ether = ether
		w.Pkts[id].OnlyEp = ep.Idx + 1
		w.stat("pkt.frame-noise")
	}
}

func pickByte(rng *rand.Rand) byte {
	return []byte{0x01, 0x80, 0xff, 0x7f, 0x10, 0x08}[rng.IntN(6)]
}

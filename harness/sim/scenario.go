// Package sim is the deterministic simulator: a baton scheduler over testing/synctest, a
// simulated shared wire with AF_PACKET semantics, scripted services, and the ledger the oracles
// read. One Scenario value fully determines one execution.
package sim

import "encoding/json"

// Scenario is the complete, JSON-serialisable description of one simulated run. The simulation
// is a pure function of (Scenario, code under test).
type Scenario struct {
	Property string `json:"property"`
	Seed     uint64 `json:"seed"`
	Index    int    `json:"index"`
	Mode     string `json:"mode,omitempty"` // "controlled" (default) | "free"
	Note     string `json:"note,omitempty"`
	// Twin asks for a second, independent execution of a derived scenario whose outcome the oracle
	// compares with this one (metamorphic rule). "no-publicip": the same request without public-IP
	// collection (and without the providers).
	Twin string `json:"twin,omitempty"`

	Calls     []Call     `json:"calls"`
	Flows     []Flow     `json:"flows,omitempty"`
	Noise     []Noise    `json:"noise,omitempty"`
	Faults    []Fault    `json:"faults,omitempty"`
	Listeners []Listener `json:"listeners,omitempty"`
	HTTP      []HTTPPlan `json:"http,omitempty"`
	DNS       []DNSPlan  `json:"dns,omitempty"`
	Knobs     Knobs      `json:"knobs"`
	Tape      []uint32   `json:"tape,omitempty"`
}

// Call is one invocation of an entry point of the code under test, started StartUs after the
// beginning of the run on its own goroutine.
type Call struct {
	Entry   string `json:"entry"` // icmp|udp|tcp|sack|run_traceroute|http_handler|engine_parallel|engine_serial|get_public_ip|fetcher_get_ip|reverse_dns|enrich|sleep
	StartUs int64  `json:"startUs,omitempty"`

	Target string `json:"target,omitempty"` // address literal (or hostname form for run_traceroute)
	Port   int    `json:"port,omitempty"`
	MinTTL int    `json:"minTTL,omitempty"`
	MaxTTL int    `json:"maxTTL,omitempty"`

	TimeoutMs int `json:"timeoutMs,omitempty"`
	DelayMs   int `json:"delayMs,omitempty"`
	PollMs    int `json:"pollMs,omitempty"` // where the entry exposes it (icmp, sack, engines)

	Paris  bool `json:"paris,omitempty"`
	Loosen bool `json:"loosen,omitempty"`

	// run_traceroute / http_handler
	Protocol   string `json:"protocol,omitempty"`
	Method     string `json:"method,omitempty"`
	WantV6     bool   `json:"wantV6,omitempty"`
	Queries    int    `json:"queries,omitempty"`
	E2E        int    `json:"e2e,omitempty"`
	ReverseDNS bool   `json:"reverseDNS,omitempty"`
	PublicIP   bool   `json:"publicIP,omitempty"`
	// BoolStyle: how the HTTP query spells its booleans: 0 true/false, 1 "1"/"0", 2 TRUE/FALSE, 3 True/False
	BoolStyle   int    `json:"boolStyle,omitempty"`
	SkipPrivate bool   `json:"skipPrivate,omitempty"`
	RawQuery    string `json:"rawQuery,omitempty"` // http_handler: query string used verbatim when set

	// sack direct
	HandshakeTimeoutMs int `json:"handshakeTimeoutMs,omitempty"`
	FinTimeoutMs       int `json:"finTimeoutMs,omitempty"`
	// Listener is the index (1-based; 0 = none) of the scenario listener whose kernel-chosen port
	// replaces Port at run time (SACK needs a real TCP handshake).
	Listener int `json:"listener,omitempty"`

	CancelAtUs int64 `json:"cancelAtUs,omitempty"` // >0: cancel the call's context at this instant (relative to run start)
	// PreCancelled: the context handed to the entry point is already cancelled (a caller whose deadline
	// has passed, a client that went away before the handler ran)
	PreCancelled bool `json:"preCancelled,omitempty"`

	// scripted-driver engines
	Script *EngineScript `json:"script,omitempty"`

	// service calls
	Addrs   []string `json:"addrs,omitempty"`   // reverse_dns / enrich
	RetryMs int      `json:"retryMs,omitempty"` // get_public_ip: deterministic back-off initial interval
	Repeat  int      `json:"repeat,omitempty"`  // repeat the call this many times (sequentially)
	GapUs   int64    `json:"gapUs,omitempty"`   // virtual sleep between repeats
	Hops    []Hop    `json:"hops,omitempty"`    // enrich: hop documents
}

// Hop is a hop of a synthetic result document (entry "enrich").
type Hop struct {
	TTL  int    `json:"ttl"`
	Addr string `json:"addr,omitempty"`
}

// Flow describes how the simulated network answers the probes of one endpoint, named by actor.
type Flow struct {
	Actor string    `json:"actor"` // "c<i>", "c<i>.2", "run#k", "run#k.2", "e2e#k"
	Hops  []HopPlan `json:"hops,omitempty"`
	// ProbeLoss lists TTLs whose probe is lost before reaching any router (no replies at all).
	ProbeLoss []int `json:"probeLoss,omitempty"`
	// TargetByArrival: the SACK target processes the probes in the order in which its answers are
	// due (forward-path reordering: a probe with a long delay is overtaken by later probes), so the
	// SACK blocks of an acknowledgement list what the target had received at that instant. Default:
	// the target processes probes in the order they were sent.
	TargetByArrival bool `json:"targetByArrival,omitempty"`
}

// HopPlan is what happens when the probe with the given TTL is handed to the wire.
type HopPlan struct {
	TTL     int     `json:"ttl"`
	From    string  `json:"from,omitempty"` // responder address for replies that do not override it
	Replies []Reply `json:"replies,omitempty"`
}

// Reply is one packet emitted in reaction to a probe.
type Reply struct {
	// Var != 0 varies the fields of the outer IP header that identify nothing: IPv4 TOS, ID, DF and TTL;
	// IPv6 traffic class, flow label and hop limit (derived from the value).
	Var uint32 `json:"var,omitempty"`
	// Form: teXfam (cross-family look-alike, see replies.go)|te28|teFull|te4884|teOpt|teRewr|teNat|teCode1|echo|unreach:<code>|synack|rst|rstack|sack|plainack|own
	Form    string `json:"form"`
	DelayUs int64  `json:"delayUs"`
	From    string `json:"from,omitempty"` // override responder
	// Perturb: single-field perturbation applied while building the packet:
	// qdst|qsrc|qsport|qdport|qproto|id|seqLo|seqHi|ipid|ipidHi|v6len|qseq|sackEdge|sackOrder|addr|sport|dport|ackno|bump
	Perturb string `json:"perturb,omitempty"`
	K       int    `json:"k,omitempty"` // parameter of the perturbation (e.g. identifier bump)
	// Garbage: byte-level damage applied last: trunc:<n>|flip:<off>:<mask>|cut:<n>|append:<n>
	Garbage   string `json:"garbage,omitempty"`
	OuterOpts bool   `json:"outerOpts,omitempty"` // direct IPv4 replies: carry IP options on the outer header (IHL > 5)
	Dup       int    `json:"dup,omitempty"`       // extra identical copies
	DupGapUs  int64  `json:"dupGapUs,omitempty"`  // spacing of the copies
}

// Noise is a packet unrelated to any probe, delivered at an absolute instant.
type Noise struct {
	AtUs int64  `json:"atUs"`
	Kind string `json:"kind"` // rand:<len>|tcpother|udpother|icmpother|sctp|v6frag|hex:<bytes>
	Seed uint32 `json:"seed,omitempty"`
	// Every > 0 repeats the packet with this period until UntilUs.
	EveryUs int64 `json:"everyUs,omitempty"`
	UntilUs int64 `json:"untilUs,omitempty"`
}

// Fault makes the k-th (1-based) call of an operation by an actor misbehave.
type Fault struct {
	Actor string `json:"actor"` // endpoint actor; "new:<actor>" is not used: op "new" names the endpoint being created
	Op    string `json:"op"`    // new|filter|deadline|read|write|closeSource|closeSink
	K     int    `json:"k"`
	Class string `json:"class"` // fatal|slowfatal (write: blocks for Us, then fails)|deadline|zero|stall (the operation takes effect Us later)|stallret (write only: the packet leaves at once, WriteTo returns Us later)
	Us    int64  `json:"us,omitempty"`
	Anon  bool   `json:"anon,omitempty"`  // the injected error's text does not name actor and operation
	Errno string `json:"errno,omitempty"` // the injected error wraps this errno (EPERM, EACCES, ENOBUFS, EINVAL, ENETDOWN, EHOSTUNREACH, EMSGSIZE, ErrPermission)
}

// Listener is a simulated SACK-capable (or not) TCP target. The kernel completes the three-way
// handshake from a real listening socket on Addr; the simulator puts the matching synthetic
// SYN-ACK on the simulated wire.
type Listener struct {
	Addr          string `json:"addr"`           // 127.0.0.x
	Port          int    `json:"port,omitempty"` // fixed listening port (every worker has its own network namespace); 0: kernel-chosen
	Closed        bool   `json:"closed,omitempty"`
	Permitted     bool   `json:"permitted"`
	Timestamps    bool   `json:"timestamps,omitempty"`
	NoSynAck      bool   `json:"noSynAck,omitempty"` // handshake never captured
	ISN           uint32 `json:"isn"`                // ack number of the first SYN-ACK (the driver's initial sequence)
	ISNStep       uint32 `json:"isnStep,omitempty"`  // added per further connection (default 1<<20)
	ServerSeq     uint32 `json:"serverSeq,omitempty"`
	SynAckDelayUs int64  `json:"synAckDelayUs,omitempty"`
	OptLayout     string `json:"optLayout,omitempty"`   // order of the SYN-ACK's options: ""(linux)|bsd|win|tsfirst|sacklast
	SynAckDupUs   int64  `json:"synAckDupUs,omitempty"` // > 0: the SYN-ACK is seen a second time this much later (retransmission)
	// FinAfterUs > 0: the target closes its side that long after its SYN-ACK: a FIN|ACK without SACK
	// blocks arrives while probes are out (it keeps answering probes with duplicate ACKs afterwards)
	FinAfterUs int64 `json:"finAfterUs,omitempty"`
	// GreetingLen > 0: the target sent that many bytes of its own right after the handshake (a service
	// banner); the capture handle never saw them, the sequence numbers of its later segments show it
	GreetingLen int `json:"greetingLen,omitempty"`
	TruncTS    bool  `json:"truncTS,omitempty"`
}

// HTTPPlan scripts one public-IP provider (by position in the repo's provider list).
type HTTPPlan struct {
	Provider int      `json:"provider"`
	Script   []string `json:"script"` // per connection, in order: refuse|closeEarly|status:<code>:<body>|stallBeforeHeaders|stallAfterHeaders|slowBody:<us>:<body>|splitBody:<pos>:<us>:<body>
}

// DNSPlan scripts the resolver for one address.
type DNSPlan struct {
	Addr   string   `json:"addr"`
	Script []string `json:"script"` // per call, in order (last repeats): names:<n>|dupnames:<n>|empty|error[:notfound|:timeout|:temporary]|slow:<us>:<n>|stall
}

// Knobs are per-run configuration choices of the simulated environment.
type Knobs struct {
	CaptureOutgoing bool   `json:"captureOutgoing,omitempty"`
	IgnoreFilters   bool   `json:"ignoreFilters,omitempty"`
	PacketIDBase    uint32 `json:"packetIDBase,omitempty"`
	SetPacketIDBase bool   `json:"setPacketIDBase,omitempty"`
	EchoIDBase      uint32 `json:"echoIDBase,omitempty"`
	// LocalPort > 0: the kernel hands out exactly this local port while the scenario runs (the
	// worker's private network namespace gets a one-port ip_local_port_range): what depends on the
	// kernel's choice (checksums, tags derived from the port) becomes a function of the scenario.
	// Only for scenarios with one endpoint alive at a time and no real TCP connection.
	LocalPort int `json:"localPort,omitempty"`
	// SetTCPSeq: the TCP SYN driver's sequence numbers come from a source that starts at TCPSeqBase
	// (default mode: the run's one sequence number; Paris mode: the first probe's, later probes get
	// values spread over the sequence space) instead of the random generator
	SetTCPSeq     bool   `json:"setTCPSeq,omitempty"`
	TCPSeqBase    uint32 `json:"tcpSeqBase,omitempty"`
	SetEchoIDBase bool   `json:"setEchoIDBase,omitempty"`
	RandSeed      int64  `json:"randSeed,omitempty"`
	FrameNoise    int    `json:"frameNoise,omitempty"` // frames synthesised around each installed filter's configuration (C12)
	// free-running mode only: 1-based ordinals of the NewSourceSink calls that fail (each with its own
	// sentinel); FreeFailAll fails every construction
	FreeFailNew []int `json:"freeFailNew,omitempty"`
	FreeFailAll bool  `json:"freeFailAll,omitempty"`
	// MustClosePort: the handles are of the kind that tell the run to release the port it reserved
	// (SourceSinkHandle.MustClosePort, what a platform without a capture driver reports)
	MustClosePort bool `json:"mustClosePort,omitempty"`
	// free-running mode only: the k-th WriteTo of every handle fails (the error paths of the senders
	// run while the receivers are looking replies up)
	FreeFailWrite int `json:"freeFailWrite,omitempty"`
	// free-running mode only: SACK targets negotiate TCP timestamps and their clock ticks between
	// the acknowledgements they send
	FreeTimestamps bool `json:"freeTimestamps,omitempty"`
	FreshCache     bool `json:"freshCache,omitempty"` // false keeps the cache of the previous call in the same scenario only
}

// EngineScript drives common.TracerouteParallel / TracerouteSerial through a scripted driver.
type EngineScript struct {
	// Responses are handed out by ReceiveProbe in the order chosen by the scheduler among those
	// currently eligible (AfterSend satisfied).
	Responses []ScriptResp `json:"responses"`
	// SendErrAt > 0 makes the SendProbe for this TTL fail fatally.
	SendErrAt int `json:"sendErrAt,omitempty"`
	// RecvErrAfter > 0 makes ReceiveProbe fail fatally after this many successful hand-outs.
	RecvErrAfter int `json:"recvErrAfter,omitempty"`
	// RetryableEvery > 0 makes every n-th ReceiveProbe return a retryable bad-packet error.
	RetryableEvery int  `json:"retryableEvery,omitempty"`
	NoParallel     bool `json:"noParallel,omitempty"`
	// SendStallTTL > 0: SendProbe for this TTL puts the probe on the wire at once (its responses become
	// eligible) but returns to the engine SendStallUs later (a sender held up inside the write).
	SendStallTTL int   `json:"sendStallTTL,omitempty"`
	SendStallUs  int64 `json:"sendStallUs,omitempty"`
}

// ScriptResp is one response the scripted driver can hand out.
type ScriptResp struct {
	TTL       int    `json:"ttl"`
	Addr      string `json:"addr"`
	Dest      bool   `json:"dest,omitempty"`
	AfterSend int    `json:"afterSend,omitempty"` // eligible once SendProbe for this TTL was called (0: any time after the first send)
	RTTUs     int64  `json:"rttUs,omitempty"`
	DelayUs   int64  `json:"delayUs,omitempty"` // eligible this long after AfterSend's probe was sent
}

// Clone deep-copies a scenario (via JSON; scenarios are plain data).
// DeriveTwin returns the scenario the Twin directive describes (nil when there is none).
func (s *Scenario) DeriveTwin() *Scenario {
	switch s.Twin {
	case "no-publicip":
		t := s.Clone()
		t.Twin = ""
		t.HTTP = nil
		for i := range t.Calls {
			t.Calls[i].PublicIP = false
		}
		return t
	}
	return nil
}

func (s *Scenario) Clone() *Scenario {
	b, err := json.Marshal(s)
	if err != nil {
		panic(err)
	}
	var c Scenario
	if err := json.Unmarshal(b, &c); err != nil {
		panic(err)
	}
	return &c
}

package sim

import (
	"bytes"
	"compress/gzip"
	"context"
	"errors"
	"fmt"
	"io"
	"net"
	"strconv"
	"strings"
	"time"
)

// Providers is the documented provider order of the public-IP fetcher (host part), used to map
// a dialled host to its position. It is specification data: C18 says "asks providers in order".
var Providers = []string{"icanhazip.com", "ipinfo.io", "checkip.amazonaws.com", "api.ipify.org", "whatismyip.akamai.com"}

// DNSCall is one resolver invocation.
type DNSCall struct {
	Caller        string // name of the calling goroutine when it is a registered call goroutine
	Addr          string
	N             int
	CallAt, RetAt time.Duration
	Script        string
	Names         []string
	Err           string
}

type dnsState struct {
	count map[string]int
	Calls []*DNSCall
}

var errDNS = errors.New("verif: scripted resolver failure")

// lookupAddr is installed as reversedns.LookupAddrFn.
func (w *World) lookupAddr(ctx context.Context, addr string) ([]string, error) {
	gid, _ := curGID()
	r := w.park(&op{kind: opDNS, actor: "dns:" + addr, key: addr, ctx: ctx, gid: gid})
	return r.names, r.err
}

func (w *World) dnsScript(o *op) string {
	for i := range w.Sc.DNS {
		p := &w.Sc.DNS[i]
		if p.Addr == o.key && len(p.Script) > 0 {
			n := o.nth
			if n > len(p.Script) {
				n = len(p.Script)
			}
			return p.Script[n-1]
		}
	}
	for i := range w.Sc.DNS {
		if p := &w.Sc.DNS[i]; p.Addr == "*" && len(p.Script) > 0 {
			return p.Script[min(o.nth, len(p.Script))-1] // default plan for addresses without one of their own
		}
	}
	return "error"
}

func (w *World) dnsReleasable(o *op, now time.Duration) bool {
	base, args := splitForm(w.dnsScript(o))
	if o.ctx.Err() != nil {
		return true
	}
	switch base {
	case "slow":
		return now >= o.parkAt+time.Duration(atoi(args[0]))*time.Microsecond
	case "stall":
		return false
	}
	return true
}

func (w *World) serviceWake(o *op) time.Duration {
	switch o.kind {
	case opDNS:
		base, args := splitForm(w.dnsScript(o))
		if base == "slow" {
			return o.parkAt + time.Duration(atoi(args[0]))*time.Microsecond
		}
	case opHTTPRead:
		return o.conn.nextAvail()
	}
	return -1
}

func dnsNames(addr string, nth, n int) []string {
	out := make([]string, n)
	clean := strings.NewReplacer(":", "-", ".", "-").Replace(addr)
	for i := range out {
		out[i] = fmt.Sprintf("n%d-c%d.%s.example.", i+1, nth, clean)
	}
	return out
}

func (w *World) performDNS(o *op, now time.Duration) {
	script := w.dnsScript(o)
	base, args := splitForm(script)
	rec := &DNSCall{Addr: o.key, N: o.nth, CallAt: o.parkAt, RetAt: now, Script: script, Caller: w.nameOf(o.gid)}
	w.dns.Calls = append(w.dns.Calls, rec)
	var res opResult
	switch {
	case o.ctx.Err() != nil && (base == "stall" || base == "slow"):
		res.err = o.ctx.Err()
		w.stat("fault.dns." + base + ".ctxdone")
	case base == "names":
		res.names = dnsNames(o.key, o.nth, atoi(args[0]))
	case base == "dupnames":
		// a resolver may list one name twice (two PTR records, or a CNAME and its target)
		nn := dnsNames(o.key, o.nth, atoi(args[0]))
		res.names = append([]string{nn[0]}, nn...)
		if len(nn) > 1 {
			res.names = append(res.names, nn[len(nn)-1])
		}
	case base == "slow":
		res.names = dnsNames(o.key, o.nth, atoi(args[1]))
		w.stat("fault.dns.slow")
	case base == "empty":
		res.names = []string{}
		w.stat("fault.dns.empty")
	default:
		res.err = errDNS
		if len(args) > 0 {
			// the error classes a real resolver reports
			de := &net.DNSError{Err: "verif: scripted resolver failure", Name: o.key, Server: "192.0.2.53:53"}
			switch args[0] {
			case "notfound":
				de.Err, de.IsNotFound = "no such host", true
			case "timeout":
				de.Err, de.IsTimeout, de.IsTemporary = "i/o timeout", true, true
			case "temporary":
				de.Err, de.IsTemporary = "server misbehaving", true
			}
			res.err = de
		}
		w.stat("fault.dns.error")
	}
	rec.Names = res.names
	if res.err != nil {
		rec.Err = res.err.Error()
	}
	w.Log.add(now, o.actor, "dns", strconv.Itoa(o.nth)+" "+base)
	w.release(o, res)
}

// ---------------------------------------------------------------------------------------------
// HTTP provider connections

// HTTPConn records one dialled provider connection.
type HTTPConn struct {
	Caller        string
	Provider      int // index in Providers, -1 unknown
	Host          string
	N             int // n-th dial to this provider
	DialAt        time.Duration
	Script        string
	Refused       bool
	Requests      int
	RequestAt     []time.Duration
	ClosedByPeer  bool
	ClosedAt      time.Duration
	ResponseBytes int
}

type httpState struct {
	count map[string]int
	Conns []*HTTPConn
}

type chunk struct {
	at   time.Duration
	data []byte
}

type simConn struct {
	w       *World
	rec     *HTTPConn
	actor   string
	script  string
	reqBuf  []byte
	out     []chunk // pending response bytes with availability time
	eofAt   time.Duration
	hasEOF  bool
	closed  bool
	started bool
}

var errRefused = errors.New("verif: connection refused by scripted provider")

// dialTLS is installed as http.DefaultTransport's DialTLSContext.
func (w *World) dialTLS(ctx context.Context, network, addr string) (net.Conn, error) {
	host, _, _ := net.SplitHostPort(addr)
	gid, _ := curGID()
	r := w.park(&op{kind: opHTTPDial, actor: "http:" + host, key: host, ctx: ctx, gid: gid})
	if r.err != nil {
		return nil, r.err
	}
	return r.conn, nil
}

func providerIndex(host string) int {
	for i, p := range Providers {
		if p == host {
			return i
		}
	}
	return -1
}

func (w *World) httpScript(host string, nth int) string {
	pi := providerIndex(host)
	for i := range w.Sc.HTTP {
		p := &w.Sc.HTTP[i]
		if p.Provider == pi && len(p.Script) > 0 {
			n := nth
			if n > len(p.Script) {
				n = len(p.Script)
			}
			return p.Script[n-1]
		}
	}
	return "refuse"
}

func (c *simConn) nextAvail() time.Duration {
	t := time.Duration(-1)
	if len(c.out) > 0 {
		t = c.out[0].at
	}
	if c.hasEOF && len(c.out) == 0 {
		t = c.eofAt
	}
	return t
}

func (w *World) httpReadReleasable(o *op, now time.Duration) bool {
	c := o.conn
	if c.closed {
		return true
	}
	if len(c.out) > 0 && c.out[0].at <= now {
		return true
	}
	if c.hasEOF && len(c.out) == 0 && c.eofAt <= now {
		return true
	}
	return false
}

func (w *World) performHTTP(o *op, now time.Duration) {
	switch o.kind {
	case opHTTPDial:
		script := w.httpScript(o.key, o.nth)
		rec := &HTTPConn{Provider: providerIndex(o.key), Host: o.key, N: o.nth, DialAt: now, Script: script, Caller: w.nameOf(o.gid)}
		if v, ok := o.ctx.Value(callerKey{}).(string); ok {
			rec.Caller = v // the request context carries the caller's name through net/http
		}
		w.httpSt.Conns = append(w.httpSt.Conns, rec)
		base, _ := splitForm(script)
		w.Log.add(now, o.actor, "dial", strconv.Itoa(o.nth)+" "+base)
		w.stat("http." + base)
		if base == "refuse" {
			rec.Refused = true
			w.release(o, opResult{err: errRefused})
			return
		}
		c := &simConn{w: w, rec: rec, actor: o.actor + "#" + strconv.Itoa(o.nth), script: script}
		w.release(o, opResult{conn: c})
	case opHTTPWrite:
		c := o.conn
		c.reqBuf = append(c.reqBuf, o.buf...)
		if !c.started && strings.Contains(string(c.reqBuf), "\r\n\r\n") {
			c.started = true
			c.rec.Requests++
			c.rec.RequestAt = append(c.rec.RequestAt, now)
			c.respond(now)
		}
		w.release(o, opResult{n: len(o.buf)})
	case opHTTPRead:
		c := o.conn
		switch {
		case c.closed:
			w.release(o, opResult{err: net.ErrClosed})
		case len(c.out) > 0 && c.out[0].at <= now:
			n := copy(o.buf, c.out[0].data)
			c.out[0].data = c.out[0].data[n:]
			if len(c.out[0].data) == 0 {
				c.out = c.out[1:]
			}
			c.rec.ResponseBytes += n
			w.Log.add(now, c.actor, "httpRead", strconv.Itoa(n))
			w.release(o, opResult{n: n})
		default:
			c.rec.ClosedByPeer = true
			w.Log.add(now, c.actor, "httpRead", "eof")
			w.release(o, opResult{err: io.EOF})
		}
	case opHTTPClose:
		c := o.conn
		if !c.closed {
			c.closed = true
			c.rec.ClosedAt = now
		}
		w.Log.add(now, c.actor, "httpClose", "")
		w.release(o, opResult{})
	}
}

func (c *simConn) respond(now time.Duration) {
	base, args := splitForm(c.script)
	hdr := func(code int, n int) []byte {
		return []byte(fmt.Sprintf("HTTP/1.1 %d S\r\nContent-Type: text/plain\r\nContent-Length: %d\r\nConnection: close\r\n\r\n", code, n))
	}
	switch base {
	case "closeEarly":
		c.hasEOF, c.eofAt = true, now
	case "gzip":
		// a provider (or the CDN in front of it) that compresses its answer when the request allows it,
		// as net/http's transport does by default (and then undoes it without the caller noticing)
		body := strings.Join(args, ":")
		if !strings.Contains(strings.ToLower(string(c.reqBuf)), "accept-encoding: gzip") {
			c.out = append(c.out, chunk{now, append(hdr(200, len(body)), body...)})
			break
		}
		var zb bytes.Buffer
		zw := gzip.NewWriter(&zb)
		zw.Write([]byte(body))
		zw.Close()
		h := fmt.Sprintf("HTTP/1.1 200 S\r\nContent-Type: text/plain\r\nContent-Encoding: gzip\r\nContent-Length: %d\r\nConnection: close\r\n\r\n", zb.Len())
		c.out = append(c.out, chunk{now, append([]byte(h), zb.Bytes()...)})
		c.w.stat("fault.http.gzip-answer")
	case "status":
		code := atoi(args[0])
		body := strings.Join(args[1:], ":")
		c.out = append(c.out, chunk{now, append(hdr(code, len(body)), body...)})
		// the provider waits for the client to close (Connection: close): never two
		// transport-visible events at once
	case "stallBeforeHeaders":
	case "stallAfterHeaders":
		c.out = append(c.out, chunk{now, hdr(200, 12)})
	case "slowBody":
		us := atoi(args[0])
		body := strings.Join(args[1:], ":")
		c.out = append(c.out, chunk{now, hdr(200, len(body))})
		c.out = append(c.out, chunk{now + time.Duration(us)*time.Microsecond, []byte(body)})
	case "splitBody":
		// the body arrives in two segments, cut at <pos>, <us> apart (headers with the first one)
		pos, us := atoi(args[0]), atoi(args[1])
		body := strings.Join(args[2:], ":")
		if pos > len(body) {
			pos = len(body)
		}
		c.out = append(c.out, chunk{now, append(hdr(200, len(body)), body[:pos]...)})
		c.out = append(c.out, chunk{now + time.Duration(max(us, 1))*time.Microsecond, []byte(body[pos:])})
		c.w.stat("fault.http.bodyInTwoSegments")
	case "garbage":
		c.out = append(c.out, chunk{now, []byte("\x00\x01garbage not http\r\n\r\n")})
		c.hasEOF, c.eofAt = true, now
	}
}

func (c *simConn) Read(b []byte) (int, error) {
	r := c.w.park(&op{kind: opHTTPRead, actor: c.actor, conn: c, buf: b})
	return r.n, r.err
}
func (c *simConn) Write(b []byte) (int, error) {
	r := c.w.park(&op{kind: opHTTPWrite, actor: c.actor, conn: c, buf: append([]byte(nil), b...)})
	return r.n, r.err
}
func (c *simConn) Close() error {
	c.w.park(&op{kind: opHTTPClose, actor: c.actor, conn: c})
	return nil
}

type simAddr string

func (a simAddr) Network() string { return "sim" }
func (a simAddr) String() string  { return string(a) }

func (c *simConn) LocalAddr() net.Addr                { return simAddr("local") }
func (c *simConn) RemoteAddr() net.Addr               { return simAddr(c.rec.Host) }
func (c *simConn) SetDeadline(t time.Time) error      { return nil }
func (c *simConn) SetReadDeadline(t time.Time) error  { return nil }
func (c *simConn) SetWriteDeadline(t time.Time) error { return nil }

func (w *World) nameOf(gid uint64) string {
	w.mu.Lock()
	defer w.mu.Unlock()
	return w.gidName[gid]
}

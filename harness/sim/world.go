package sim

import (
	"container/heap"
	"context"
	"crypto/sha256"
	"encoding/hex"
	"fmt"
	"hash"
	"net/netip"
	"os"
	"runtime"
	"sort"
	"strconv"
	"strings"
	"sync"
	"syscall"
	"testing/synctest"
	"time"

	"github.com/DataDog/datadog-traceroute/packets"
)

type opKind int

const (
	opNew opKind = iota
	opFilter
	opDeadline
	opCloseSrc
	opCloseSink
	opRead
	opWrite
	opDNS
	opHTTPDial
	opHTTPRead
	opHTTPWrite
	opHTTPClose
	opDrvSend
	opDrvRecv
	opYield
)

var opNames = [...]string{"new", "filter", "deadline", "closeSource", "closeSink", "read", "write", "dns", "httpDial", "httpRead", "httpWrite", "httpClose", "drvSend", "drvRecv", "yield"}

func (k opKind) String() string { return opNames[k] }

// eager ops have effects local to their actor (or order-insensitive ones); they are released
// first, in actor order, without consuming the choice tape.
func (k opKind) eager() bool {
	switch k {
	case opNew, opFilter, opDeadline, opCloseSrc, opCloseSink, opHTTPWrite, opHTTPClose:
		return true
	}
	return false
}

type opResult struct {
	n      int
	err    error
	handle packets.SourceSinkHandle
	names  []string
	conn   *simConn
	resp   any
	stall  time.Duration // the caller returns this much later (write: the packet has already left)
}

type op struct {
	kind      opKind
	actor     string // set for ops on a known endpoint/service; "" for anonymous "new"
	ep        *Endpoint
	gid       uint64
	role      string // for opNew from unregistered goroutines
	parkAt    time.Duration
	notBefore time.Duration
	parkSeq   uint64
	nth       int // per (actor,kind) call ordinal (1-based), assigned at park for known actors
	arrival   uint64

	buf      []byte
	addr     netip.AddrPort
	spec     packets.PacketFilterSpec
	deadline time.Time
	ctx      context.Context
	key      string
	conn     *simConn
	drv      *scriptDriver
	ttl      int
	poll     time.Duration

	fault *Fault
	done  chan opResult
}

type event struct {
	at   time.Duration
	seq  uint64
	kind string // arrive|cancel|start|wake|fn
	pkt  int
	call int
	fn   func(at time.Duration)
}

type evHeap []event

func (h evHeap) Len() int { return len(h) }
func (h evHeap) Less(i, j int) bool {
	return h[i].at < h[j].at || (h[i].at == h[j].at && h[i].seq < h[j].seq)
}
func (h evHeap) Swap(i, j int)       { h[i], h[j] = h[j], h[i] }
func (h *evHeap) Push(x interface{}) { *h = append(*h, x.(event)) }
func (h *evHeap) Pop() interface{} {
	o := *h
	n := len(o)
	x := o[n-1]
	*h = o[:n-1]
	return x
}

// EventLog hashes (and optionally keeps) one line per scheduler decision.
type EventLog struct {
	h     hash.Hash
	Keep  bool
	Lines []string
	N     int
	// sched is the hash of the release sequence only (actor role, op kind, detail class): the
	// "interleaving" measure.
	sched hash.Hash
	// Frac marks, for every logged event, the position of its instant inside its millisecond (in
	// microseconds): timers of the code under test run in whole milliseconds from some logged event,
	// so an instant whose fraction is unmarked coincides with nothing in the run.
	Frac [1000]bool
}

// TieFree reports that nothing in the run happened at (or within one microsecond of) the same
// position inside a millisecond as the instant at.
func (l *EventLog) TieFree(at time.Duration) bool {
	f := ((int(at/time.Microsecond) % 1000) + 1000) % 1000
	return !l.Frac[f] && !l.Frac[(f+1)%1000] && !l.Frac[(f+999)%1000]
}

func (l *EventLog) add(at time.Duration, actor, opname, detail string) {
	if l.h == nil {
		l.h = sha256.New()
		l.sched = sha256.New()
	}
	line := strconv.FormatInt(int64(at), 10) + " " + actor + " " + opname + " " + detail + "\n"
	l.h.Write([]byte(line))
	l.sched.Write([]byte(actor + " " + opname + " " + detail + "\n"))
	l.N++
	if opname != "cancel" {
		l.Frac[((int(at/time.Microsecond)%1000)+1000)%1000] = true
	}
	if l.Keep {
		l.Lines = append(l.Lines, line[:len(line)-1])
	}
}

// Hash returns the hex SHA-256 of the event log so far.
func (l *EventLog) Hash() string {
	if l.h == nil {
		return ""
	}
	return hex.EncodeToString(l.h.Sum(nil))
}

// SchedHash identifies the interleaving (release sequence without times).
func (l *EventLog) SchedHash() uint64 {
	if l.sched == nil {
		return 0
	}
	s := l.sched.Sum(nil)
	var v uint64
	for i := 0; i < 8; i++ {
		v = v<<8 | uint64(s[i])
	}
	return v
}

// World is the simulated environment of one run. All fields except the parked list are touched
// by the scheduler goroutine only.
type World struct {
	Sc *Scenario
	T0 time.Time

	mu      sync.Mutex
	parked  []*op
	arrival uint64
	gidName map[uint64]string
	wake    chan struct{}

	Eps       []*Endpoint
	epByActor map[string]*Endpoint
	actorNew  map[string]int
	roleCount map[string]int
	opCount   map[string]int

	events  evHeap
	evSeq   uint64
	Seq     uint64 // global decision sequence
	tapePos int

	Log   EventLog
	Pkts  []*PktRec
	Calls []*CallState
	Lis   []*lisState
	Stats map[string]int

	dns     *dnsState
	httpSt  *httpState
	drivers []*scriptDriver

	portSym map[uint16]string
	nConns  int

	finished                  bool
	FailedNew                 []string
	PortReused                bool // see performWrite
	FreeFailed, FreeEndpoints int  // free-running mode: constructions that were failed / attempted
	Fired                     []FiredFault
	TapeUsed                  int
	Choices                   int // decisions with more than one candidate
	MaxVirtual                time.Duration
	Overran                   bool
	capAt                     time.Duration
}

func (w *World) now() time.Duration { return time.Since(w.T0) }

func (w *World) stat(k string) { w.Stats[k]++ }

func (w *World) schedule(e event) {
	w.evSeq++
	e.seq = w.evSeq
	heap.Push(&w.events, e)
}

// curGID returns the current goroutine id and whether the stack contains the e2e probe function.
func curGID() (uint64, bool) {
	var buf [8192]byte
	n := runtime.Stack(buf[:], false)
	s := string(buf[:n])
	// "goroutine 123 ["
	s2 := s[len("goroutine "):]
	i := strings.IndexByte(s2, ' ')
	id, _ := strconv.ParseUint(s2[:i], 10, 64)
	return id, strings.Contains(s, "runE2eProbeOnce")
}

func (w *World) registerGID(name string) {
	id, _ := curGID()
	w.mu.Lock()
	w.gidName[id] = name
	w.mu.Unlock()
}

// park is called on goroutines of the code under test: it queues the operation and blocks
// (durably, on a bubble channel) until the scheduler releases it.
func (w *World) park(o *op) opResult {
	o.done = make(chan opResult, 1)
	o.parkAt = w.now()
	o.parkSeq = w.Seq
	w.mu.Lock()
	if w.finished {
		w.mu.Unlock()
		// the run is over (leaked goroutine of the code under test): never release
		select {}
	}
	w.arrival++
	o.arrival = w.arrival
	w.parked = append(w.parked, o)
	w.mu.Unlock()
	select {
	case w.wake <- struct{}{}:
	default:
	}
	return <-o.done
}

func (w *World) signal() {
	select {
	case w.wake <- struct{}{}:
	default:
	}
}

func (w *World) choose(n int) int {
	if n <= 1 {
		return 0
	}
	w.Choices++
	var v uint32
	if w.tapePos < len(w.Sc.Tape) {
		v = w.Sc.Tape[w.tapePos]
		w.TapeUsed = w.tapePos + 1
	}
	w.tapePos++
	return int(v % uint32(n))
}

func (w *World) findFault(actor string, kind opKind, nth int) *Fault {
	for i := range w.Sc.Faults {
		f := &w.Sc.Faults[i]
		if f.Actor == actor && f.Op == kind.String() && f.K == nth {
			return f
		}
	}
	return nil
}

// snapshot takes the parked list, orders it deterministically and assigns per-actor ordinals.
func (w *World) snapshot() []*op {
	w.mu.Lock()
	ops := append([]*op(nil), w.parked...)
	w.mu.Unlock()
	for _, o := range ops {
		if o.kind == opRead && o.nth == 0 && o.ep != nil {
			o.ep.readsParked++
		}
		if o.actor != "" && o.nth == 0 {
			k := o.actor + "/" + o.kind.String()
			w.opCount[k]++
			o.nth = w.opCount[k]
			if f := w.findFault(o.actor, o.kind, o.nth); f != nil {
				o.fault = f
				if f.Class == "slowfatal" {
					// the operation blocks for Us and then fails (the caller sits inside it meanwhile)
					w.stat("fault." + o.kind.String() + ".slowfatal")
					o.notBefore = o.parkAt + time.Duration(f.Us)*time.Microsecond + 333*time.Nanosecond
				}
				if f.Class == "stall" {
					w.stat("fault." + o.kind.String() + ".stall")
					w.Fired = append(w.Fired, FiredFault{Actor: o.actor, Op: o.kind.String(), K: o.nth, Class: "stall", At: o.parkAt})
					// +333ns keeps stalled actors off the microsecond grid on which context
					// deadlines live (DESIGN 2.1)
					o.notBefore = o.parkAt + time.Duration(f.Us)*time.Microsecond + 333*time.Nanosecond
				}
			}
		}
	}
	sort.SliceStable(ops, func(i, j int) bool {
		a, b := ops[i], ops[j]
		an, bn := a.actor, b.actor
		if an == "" && a.kind == opNew {
			an = a.key // construction by a registered goroutine: ordered by its name
		}
		if bn == "" && b.kind == opNew {
			bn = b.key
		}
		if (an == "") != (bn == "") {
			return an != "" // named first
		}
		if an != bn {
			return an < bn
		}
		if a.kind != b.kind {
			return a.kind < b.kind
		}
		if a.role != b.role {
			return a.role < b.role
		}
		return a.arrival < b.arrival
	})
	return ops
}

func (w *World) unpark(o *op) {
	w.mu.Lock()
	for i, p := range w.parked {
		if p == o {
			w.parked = append(w.parked[:i], w.parked[i+1:]...)
			break
		}
	}
	w.mu.Unlock()
}

func (w *World) release(o *op, res opResult) {
	w.unpark(o)
	w.Seq++
	o.done <- res
}

const virtualCap = 200 * time.Hour

// overrunMargin is how long past everything the scenario itself schedules (call starts, scripted
// gaps between repeats, cancellations) a run may go on in virtual time before it is declared never
// to return. The longest legitimate run (255 TTLs, seconds per TTL) stays far below it; a loop that
// never ends costs a second of real time instead of the watchdog's patience.
const overrunMargin = 30 * time.Minute

func (w *World) horizon() time.Duration {
	var h time.Duration
	for _, c := range w.Calls {
		n := max(c.C.Repeat, 1)
		h += time.Duration(c.C.StartUs+int64(n)*c.C.GapUs+c.C.CancelAtUs) * time.Microsecond
	}
	return min(h+overrunMargin, virtualCap)
}

// Run is the scheduler: the root function of the bubble.
func (w *World) Run() {
	w.capAt = w.horizon()
	for ci := range w.Calls {
		w.schedule(event{at: time.Duration(w.Calls[ci].C.StartUs) * time.Microsecond, kind: "start", call: ci})
	}
	for i := range w.Sc.Noise {
		w.scheduleNoise(i)
	}
	for {
		synctest.Wait()
		now := w.now()
		if now > w.MaxVirtual {
			w.MaxVirtual = now
		}
		if w.fireDue(now) {
			// events start call goroutines and cancel contexts: quiesce again before looking at the
			// parked operations, otherwise the decision races with the goroutines just made runnable
			synctest.Wait()
		}
		if w.allDone() {
			break
		}
		if now > w.capAt {
			w.Overran = true
			break
		}
		ops := w.snapshot()
		w.pollListeners(now)
		w.fireDue(now) // a SYN-ACK injected with zero delay arrives at this very instant
		// eager operations first
		var eager *op
		for _, o := range ops {
			if o.kind.eager() && o.notBefore <= now {
				eager = o
				break
			}
		}
		if eager != nil {
			w.perform(eager, now)
			continue
		}
		var rel []*op
		for _, o := range ops {
			if !o.kind.eager() && o.notBefore <= now && w.releasable(o, now) {
				rel = append(rel, o)
			}
		}
		if len(rel) > 0 {
			w.perform(rel[w.choose(len(rel))], now)
			continue
		}
		next := w.nextWake(ops, now)
		if next < 0 {
			// nothing scheduled: wait for a park or a call completion. If everything is blocked
			// for good, synctest ends the bubble with its deadlock panic (no-return).
			<-w.wake
			continue
		}
		d := next - now
		if d <= 0 {
			d = time.Nanosecond
		}
		t := time.NewTimer(d)
		select {
		case <-w.wake:
			t.Stop()
		case <-t.C:
		}
	}
	w.mu.Lock()
	w.finished = true
	w.mu.Unlock()
}

func (w *World) allDone() bool {
	for _, c := range w.Calls {
		if !c.Finished {
			return false
		}
	}
	return true
}

func (w *World) fireDue(now time.Duration) (woke bool) {
	for w.events.Len() > 0 && w.events[0].at <= now {
		e := heap.Pop(&w.events).(event)
		switch e.kind {
		case "arrive":
			w.deliver(e.pkt, e.at)
		case "cancel":
			c := w.Calls[e.call]
			if c.cancel != nil && !c.Finished {
				c.CancelledAt = e.at
				w.Log.add(e.at, "c"+strconv.Itoa(e.call), "cancel", "")
				w.stat("fault.cancel")
				c.cancel()
				woke = true
			}
		case "start":
			w.startCall(e.call)
			woke = true
		case "wake":
		case "fn":
			e.fn(e.at)
		}
	}
	return woke
}

// nextWake is the earliest instant at which something can change without a new park.
func (w *World) nextWake(ops []*op, now time.Duration) time.Duration {
	next := time.Duration(-1)
	upd := func(t time.Duration) {
		if t > now && (next < 0 || t < next) {
			next = t
		}
	}
	if w.events.Len() > 0 {
		upd(w.events[0].at)
		if w.events[0].at <= now {
			return now
		}
	}
	for _, o := range ops {
		upd(o.notBefore)
		switch o.kind {
		case opRead:
			if !o.ep.deadline.IsZero() {
				upd(o.ep.deadline.Sub(w.T0))
			}
		case opDNS, opHTTPDial, opHTTPRead:
			if o.ctx != nil {
				if dl, ok := o.ctx.Deadline(); ok {
					upd(dl.Sub(w.T0))
				}
			}
			if t := w.serviceWake(o); t > 0 {
				upd(t)
			}
		case opDrvRecv:
			upd(o.parkAt + o.poll)
			if t := o.drv.nextEligible(now); t > 0 {
				upd(t)
			}
		}
	}
	return next
}

func (w *World) releasable(o *op, now time.Duration) bool {
	switch o.kind {
	case opWrite, opDrvSend, opYield:
		return true
	case opRead:
		return o.ep.readReleasable(o, now)
	case opDNS:
		return w.dnsReleasable(o, now)
	case opHTTPDial:
		return true
	case opHTTPRead:
		return w.httpReadReleasable(o, now)
	case opDrvRecv:
		return o.drv.recvReleasable(o, now)
	}
	return true
}

func (w *World) perform(o *op, now time.Duration) {
	switch o.kind {
	case opNew:
		w.performNew(o, now)
	case opFilter, opDeadline, opCloseSrc, opCloseSink, opRead, opWrite:
		o.ep.perform(w, o, now)
	case opDNS:
		w.performDNS(o, now)
	case opHTTPDial, opHTTPRead, opHTTPWrite, opHTTPClose:
		w.performHTTP(o, now)
	case opDrvSend, opDrvRecv:
		o.drv.perform(w, o, now)
	case opYield:
		w.Log.add(now, o.actor, "yield", "")
		w.release(o, opResult{})
	}
}

// FiredFault records a fault of the plan that actually took effect.
type FiredFault struct {
	Actor string
	Op    string
	K     int
	Class string
	At    time.Duration
}

func (w *World) fire(o *op, class string) {
	w.Fired = append(w.Fired, FiredFault{Actor: o.actor, Op: o.kind.String(), K: o.nth, Class: class, At: w.now()})
}

// SentinelError is the unique cause injected by a fault.
type SentinelError struct {
	Actor string
	Op    string
	K     int
	// Anon: the text names neither actor nor operation, as when several runs fail for the same
	// reason ("permission denied"); the value is still a distinct error.
	Anon bool
	// Cause, when set, is what the injected error wraps: an errno a real socket operation fails with.
	Cause error
}

func (e *SentinelError) Unwrap() error { return e.Cause }

func (e *SentinelError) Error() string {
	if e.Anon {
		return "verif-injected failure: operation not permitted"
	}
	return fmt.Sprintf("verif-injected failure %s/%s#%d", e.Actor, e.Op, e.K)
}

func (w *World) sentinel(o *op) error {
	se := &SentinelError{Actor: o.actor, Op: o.kind.String(), K: o.nth, Anon: o.fault != nil && o.fault.Anon}
	if o.fault != nil {
		se.Cause = errnoFor(o.fault.Errno)
	}
	return se
}

// errnoFor maps the scenario's errno name to the value a failing socket call returns. Only plainly
// fatal ones: none of them means "deadline", "would block" or "interrupted".
func errnoFor(name string) error {
	switch name {
	case "EPERM":
		return syscall.EPERM
	case "EACCES":
		return syscall.EACCES
	case "ENOBUFS":
		return syscall.ENOBUFS
	case "EINVAL":
		return syscall.EINVAL
	case "ENETDOWN":
		return syscall.ENETDOWN
	case "EHOSTUNREACH":
		return syscall.EHOSTUNREACH
	case "EMSGSIZE":
		return syscall.EMSGSIZE
	case "ErrPermission":
		return os.ErrPermission
	case "ETIMEDOUT":
		return syscall.ETIMEDOUT
	case "EAGAIN":
		return syscall.EAGAIN
	}
	return nil
}

// Timeout reports what the wrapped cause reports: an errno such as ETIMEDOUT or EAGAIN is a
// "timeout" to net.Error-style tests, and still not the read deadline's os.ErrDeadlineExceeded.
func (e *SentinelError) Timeout() bool {
	t, ok := e.Cause.(interface{ Timeout() bool })
	return ok && t.Timeout()
}

// symPort renders kernel-chosen ports symbolically, in order of first appearance.
func (w *World) symPort(p uint16) string {
	if s, ok := w.portSym[p]; ok {
		return s
	}
	s := "L" + strconv.Itoa(len(w.portSym)+1)
	w.portSym[p] = s
	return s
}

// NewWorld prepares a world for a scenario. It must be called inside the bubble.
func NewWorld(sc *Scenario, keepLog bool) *World {
	w := &World{
		Sc:        sc,
		T0:        time.Now(),
		gidName:   map[uint64]string{},
		wake:      make(chan struct{}, 1),
		epByActor: map[string]*Endpoint{},
		actorNew:  map[string]int{},
		roleCount: map[string]int{},
		opCount:   map[string]int{},
		Stats:     map[string]int{},
		portSym:   map[uint16]string{},
	}
	w.Log.Keep = keepLog
	for i := range sc.Calls {
		w.Calls = append(w.Calls, &CallState{Idx: i, C: &sc.Calls[i]})
	}
	return w
}

package sim

import (
	"fmt"
	"net/netip"
	"os"
	"strconv"
	"syscall"
	"time"

	"golang.org/x/net/bpf"

	"verifharness/codec"

	"github.com/DataDog/datadog-traceroute/packets"
)

// ProbeRec is one Sink.WriteTo call.
type ProbeRec struct {
	Ep, N         int
	CallAt, RelAt time.Duration
	RetAt         time.Duration // when WriteTo returned to the caller (RelAt unless the return was stalled)
	RelSeq        uint64
	Bytes         []byte
	Dst           netip.AddrPort
	IP            *codec.IP
	L4            *codec.L4
	DecErr        string
	Failed        bool // injected failure, nothing left the host
	Lost          bool
	AfterClose    bool
}

// TTL of the probe as found on the wire (0 if undecodable).
func (p *ProbeRec) TTL() int {
	if p.IP == nil {
		return 0
	}
	return int(p.IP.TTL)
}

// PktOrigin says how an inbound packet was constructed.
type PktOrigin struct {
	Flow      string `json:"flow,omitempty"`
	TTL       int    `json:"ttl,omitempty"`
	Form      string `json:"form,omitempty"`
	Perturb   string `json:"perturb,omitempty"`
	Garbage   string `json:"garbage,omitempty"`
	Noise     string `json:"noise,omitempty"`
	Handshake bool   `json:"handshake,omitempty"`
	Own       bool   `json:"own,omitempty"`
	Copy      int    `json:"copy,omitempty"`
}

// PktEp is the fate of a packet at one endpoint.
type PktEp struct {
	Seen       bool
	FilterType int
	Accepted   bool
	VMErr      string
	Read       bool
	ReadAt     time.Duration
	ReadSeq    uint64
}

// PktRec is one inbound packet on the shared wire.
type PktRec struct {
	ID    int
	Ether uint16 // ethertype override for the capture filter (0: by IP version)
	// OnlyEp > 0 delivers the packet to endpoint OnlyEp-1 only. Used for the synthetic filter-probe
	// frames of C12, whose port bytes are derived arithmetically from kernel-chosen ports: seen by
	// other endpoints their verdict would depend on how the kernel happened to number the ports.
	OnlyEp int
	Bytes  []byte
	At     time.Duration
	Origin PktOrigin
	Ep     []PktEp
}

// ReadRec is one Source.Read call.
type ReadRec struct {
	Ep, N         int
	CallAt, RetAt time.Duration
	RetSeq        uint64
	Deadline      time.Duration // relative to T0; <0: none
	DeadlineSetAt time.Duration
	Pkt           int // -1: none
	NBytes        int
	Err           string // ""|deadline|fault:fatal|fault:deadline|zero|closed
	ProbesCalled  int    // number of this endpoint's WriteTo calls made (parked or released) when the read returned
	AfterClose    bool
}

// FilterRec is one SetPacketFilter call.
type FilterRec struct {
	At   time.Duration
	Spec packets.PacketFilterSpec
	Err  string
}

// Endpoint is the simulated capture+send handle pair created by one NewSourceSink call.
type Endpoint struct {
	Idx     int
	Actor   string
	Role    string
	Addr    netip.Addr
	Created time.Duration

	queue         []int
	vm            *bpf.VM
	FilterType    int
	deadline      time.Time
	deadlineSetAt time.Duration

	SrcClosed, SinkClosed int
	SrcClosedAt           time.Duration
	UseAfterClose         []string

	Probes       []*ProbeRec
	Reads        []*ReadRec
	Filters      []FilterRec
	Deadlines    int
	writesCalled int
	readsParked  int

	flow      *Flow
	sackSeqs  []uint32 // sequence numbers of probes the SACK target has received, in order
	localPort uint16   // source port of the first TCP/UDP probe (kernel-chosen)
	// PortNotReserved: at the first probe another socket could bind the run's local port
	PortNotReserved bool
	localProto      uint8
	lastRecvd       uint32
	tsTick          uint32 // free-running mode: how far the target's timestamp clock has advanced
	Conn            *acceptedConn
	lis             *lisState
	w               *World
}

type simSource struct {
	w  *World
	ep *Endpoint
}
type simSink struct {
	w  *World
	ep *Endpoint
}

func (s *simSource) SetReadDeadline(t time.Time) error {
	r := s.w.park(&op{kind: opDeadline, actor: s.ep.Actor, ep: s.ep, deadline: t})
	return r.err
}
func (s *simSource) Read(buf []byte) (int, error) {
	r := s.w.park(&op{kind: opRead, actor: s.ep.Actor, ep: s.ep, buf: buf})
	return r.n, r.err
}
func (s *simSource) Close() error {
	r := s.w.park(&op{kind: opCloseSrc, actor: s.ep.Actor, ep: s.ep})
	return r.err
}
func (s *simSource) SetPacketFilter(spec packets.PacketFilterSpec) error {
	r := s.w.park(&op{kind: opFilter, actor: s.ep.Actor, ep: s.ep, spec: spec})
	return r.err
}
func (s *simSink) WriteTo(buf []byte, addrPort netip.AddrPort) error {
	// the write is "called" from now on: the read path may observe it as probed
	r := s.w.park(&op{kind: opWrite, actor: s.ep.Actor, ep: s.ep, buf: buf, addr: addrPort})
	if r.stall > 0 {
		time.Sleep(r.stall) // virtual: the packet is on the wire, the calling goroutine is held up
	}
	return r.err
}
func (s *simSink) Close() error {
	r := s.w.park(&op{kind: opCloseSink, actor: s.ep.Actor, ep: s.ep})
	return r.err
}

// hookNewSourceSink is installed as packets.VerifNewSourceSink.
func (w *World) hookNewSourceSink(addr netip.Addr, useDriver bool) (packets.SourceSinkHandle, bool, error) {
	gid, e2e := curGID()
	w.mu.Lock()
	name := w.gidName[gid]
	w.mu.Unlock()
	role := "run"
	if e2e {
		role = "e2e"
	}
	o := &op{kind: opNew, gid: gid, role: role, key: name}
	o.addr = netip.AddrPortFrom(addr, 0)
	r := w.park(o)
	return r.handle, true, r.err
}

func (w *World) performNew(o *op, now time.Duration) {
	// name the creating goroutine if it is not known yet
	base := o.key
	if base == "" {
		w.roleCount[o.role]++
		base = o.role + "#" + strconv.Itoa(w.roleCount[o.role])
		w.mu.Lock()
		w.gidName[o.gid] = base
		w.mu.Unlock()
	}
	w.actorNew[base]++
	actor := base
	if n := w.actorNew[base]; n > 1 {
		actor = base + "." + strconv.Itoa(n)
	}
	o.actor = actor
	k := actor + "/new"
	w.opCount[k]++
	o.nth = w.opCount[k]
	if f := w.findFault(actor, opNew, 1); f != nil && f.Class == "fatal" {
		o.fault = f
		w.stat("fault.new.fatal")
		w.fire(o, "fatal")
		w.Log.add(now, actor, "new", "FAULT")
		w.FailedNew = append(w.FailedNew, actor)
		w.release(o, opResult{err: w.sentinel(o)})
		return
	}
	ep := &Endpoint{w: w, Idx: len(w.Eps), Actor: actor, Role: o.role, Addr: o.addr.Addr(), Created: now}
	for i := range w.Sc.Flows {
		if w.Sc.Flows[i].Actor == actor {
			ep.flow = &w.Sc.Flows[i]
		}
	}
	w.Eps = append(w.Eps, ep)
	w.epByActor[actor] = ep
	w.Log.add(now, actor, "new", "")
	w.release(o, opResult{handle: packets.SourceSinkHandle{Source: &simSource{w, ep}, Sink: &simSink{w, ep}, MustClosePort: w.Sc.Knobs.MustClosePort}})
}

func (ep *Endpoint) readReleasable(o *op, now time.Duration) bool {
	if o.fault != nil && o.fault.Class != "stall" && o.fault.Class != "fataldata" {
		return true
	}
	if ep.SrcClosed > 0 {
		return true
	}
	if len(ep.queue) > 0 {
		return true
	}
	if ep.deadline.IsZero() {
		return false
	}
	return ep.deadline.Sub(ep.w.T0) <= now
}

func (ep *Endpoint) perform(w *World, o *op, now time.Duration) {
	closedUse := func(what string) {
		ep.UseAfterClose = append(ep.UseAfterClose, what)
	}
	switch o.kind {
	case opFilter:
		if ep.SrcClosed > 0 {
			closedUse("filter")
		}
		if o.fault != nil && o.fault.Class == "fatal" {
			w.stat("fault.filter.fatal")
			w.fire(o, "fatal")
			err := w.sentinel(o)
			ep.Filters = append(ep.Filters, FilterRec{At: now, Spec: o.spec, Err: err.Error()})
			w.Log.add(now, ep.Actor, "filter", "FAULT")
			w.release(o, opResult{err: err})
			return
		}
		var err error
		if o.spec.FilterType == packets.FilterTypeNone {
			ep.vm, ep.FilterType = nil, 0
		} else {
			var raw []bpf.RawInstruction
			raw, err = packets.VerifClassicBPFFilter(o.spec)
			if err == nil {
				ins, ok := bpf.Disassemble(raw)
				if !ok {
					err = fmt.Errorf("verif: filter program does not disassemble cleanly")
				} else {
					var vm *bpf.VM
					vm, err = bpf.NewVM(ins)
					if err == nil {
						ep.vm, ep.FilterType = vm, int(o.spec.FilterType)
					}
				}
			}
		}
		rec := FilterRec{At: now, Spec: o.spec}
		if err != nil {
			rec.Err = err.Error()
			err = fmt.Errorf("SetPacketFilter failed to get BPF filter program: %w", err)
		} else {
			// SetBPFAndDrain: everything queued before the new filter is in place is discarded
			if len(ep.queue) > 0 {
				w.Stats["drained"] += len(ep.queue)
			}
			ep.queue = ep.queue[:0]
		}
		ep.Filters = append(ep.Filters, rec)
		if err == nil && w.Sc.Knobs.FrameNoise > 0 {
			w.frameNoise(ep, o.spec, now)
		}
		w.Log.add(now, ep.Actor, "filter", strconv.Itoa(int(o.spec.FilterType)))
		w.release(o, opResult{err: err})
	case opDeadline:
		if ep.SrcClosed > 0 {
			closedUse("deadline")
		}
		ep.Deadlines++
		if o.fault != nil && o.fault.Class == "fatal" {
			w.stat("fault.deadline.fatal")
			w.fire(o, "fatal")
			w.Log.add(now, ep.Actor, "deadline", "FAULT")
			w.release(o, opResult{err: w.sentinel(o)})
			return
		}
		ep.deadline = o.deadline
		ep.deadlineSetAt = now
		w.release(o, opResult{})
	case opCloseSrc:
		ep.SrcClosed++
		if ep.SrcClosed == 1 {
			ep.SrcClosedAt = now
		}
		if o.fault != nil && o.fault.Class == "fatal" {
			// the handle is gone all the same, Close just reports an error
			w.stat("fault.closeSource.fatal")
			w.fire(o, "fatal")
			w.Log.add(now, ep.Actor, "closeSource", "FAULT")
			w.release(o, opResult{err: w.sentinel(o)})
			return
		}
		w.Log.add(now, ep.Actor, "closeSource", "")
		w.release(o, opResult{})
	case opCloseSink:
		ep.SinkClosed++
		if o.fault != nil && o.fault.Class == "fatal" {
			w.stat("fault.closeSink.fatal")
			w.fire(o, "fatal")
			w.Log.add(now, ep.Actor, "closeSink", "FAULT")
			w.release(o, opResult{err: w.sentinel(o)})
			return
		}
		w.Log.add(now, ep.Actor, "closeSink", "")
		w.release(o, opResult{})
	case opRead:
		ep.performRead(w, o, now)
	case opWrite:
		ep.performWrite(w, o, now)
	}
}

func (ep *Endpoint) performRead(w *World, o *op, now time.Duration) {
	w.Seq++ // the read's return is a decision point of its own
	rec := &ReadRec{Ep: ep.Idx, N: len(ep.Reads) + 1, CallAt: o.parkAt, RetAt: now, RetSeq: w.Seq, Pkt: -1, Deadline: -1,
		DeadlineSetAt: ep.deadlineSetAt, ProbesCalled: ep.writesCalledNow(w)}
	if !ep.deadline.IsZero() {
		rec.Deadline = ep.deadline.Sub(w.T0)
	}
	ep.Reads = append(ep.Reads, rec)
	finish := func(n int, err error, tag string) {
		rec.Err = tag
		rec.NBytes = n
		w.unpark(o)
		o.done <- opResult{n: n, err: err}
	}
	if ep.SrcClosed > 0 {
		rec.AfterClose = true
		ep.UseAfterClose = append(ep.UseAfterClose, "read")
		w.Log.add(now, ep.Actor, "read", "closed")
		finish(0, os.ErrClosed, "closed")
		return
	}
	if o.fault != nil {
		switch o.fault.Class {
		case "fatal":
			w.stat("fault.read.fatal")
			w.fire(o, "fatal")
			w.Log.add(now, ep.Actor, "read", "FAULT fatal")
			finish(0, w.sentinel(o), "fault:fatal")
			return
		case "fataldata":
			// the read hands over bytes AND reports a failure in the same call (what a capture handle does
			// when it has a frame but cannot strip its link header): the next packet if one is waiting,
			// else a few bytes of rubbish. The failure is what counts.
			w.stat("fault.read.fataldata")
			w.fire(o, "fatal")
			n := copy(o.buf, []byte{0x45, 0, 0, 24, 0, 0, 0, 0, 9, 250, 0, 0, 192, 0, 2, 200, 192, 0, 2, 201, 1, 2, 3, 4})
			tag := "rubbish"
			if len(ep.queue) > 0 {
				id := ep.queue[0]
				p := w.Pkts[id]
				ep.queue = ep.queue[1:]
				n = copy(o.buf, p.Bytes)
				pe := &p.Ep[ep.Idx]
				pe.Read, pe.ReadAt, pe.ReadSeq = true, now, w.Seq
				rec.Pkt = id
				tag = "pkt" + strconv.Itoa(id)
				w.stat("fault.read.fataldata.with-packet")
			}
			w.Log.add(now, ep.Actor, "read", "FAULT fatal+data "+tag)
			finish(n, w.sentinel(o), "fault:fatal")
			return
		case "deadline":
			w.stat("fault.read.deadline")
			w.fire(o, "deadline")
			w.Log.add(now, ep.Actor, "read", "FAULT deadline")
			finish(0, os.ErrDeadlineExceeded, "fault:deadline")
			return
		case "zero":
			w.stat("fault.read.zero")
			w.fire(o, "zero")
			w.Log.add(now, ep.Actor, "read", "FAULT zero")
			finish(0, nil, "zero")
			return
		}
	}
	hasDL := !ep.deadline.IsZero()
	dl := ep.deadline.Sub(w.T0)
	if hasDL && o.parkAt >= dl {
		// deadline already expired when Read was called: the poller refuses before reading
		w.Log.add(now, ep.Actor, "read", "timeout")
		finish(0, os.ErrDeadlineExceeded, "deadline")
		return
	}
	if len(ep.queue) > 0 {
		id := ep.queue[0]
		p := w.Pkts[id]
		if !hasDL || p.At <= dl {
			ep.queue = ep.queue[1:]
			n := copy(o.buf, p.Bytes)
			pe := &p.Ep[ep.Idx]
			pe.Read, pe.ReadAt, pe.ReadSeq = true, now, w.Seq
			rec.Pkt = id
			if now-p.At > 0 {
				w.stat("read.late")
			}
			w.Log.add(now, ep.Actor, "read", "pkt"+strconv.Itoa(id))
			finish(n, nil, "")
			return
		}
	}
	w.Log.add(now, ep.Actor, "read", "timeout")
	finish(0, os.ErrDeadlineExceeded, "deadline")
}

func (ep *Endpoint) writesCalledNow(w *World) int {
	n := len(ep.Probes)
	w.mu.Lock()
	for _, p := range w.parked {
		if p.kind == opWrite && p.ep == ep {
			n++
		}
	}
	w.mu.Unlock()
	return n
}

func (ep *Endpoint) performWrite(w *World, o *op, now time.Duration) {
	w.Seq++
	pr := &ProbeRec{Ep: ep.Idx, N: len(ep.Probes) + 1, CallAt: o.parkAt, RelAt: now, RetAt: now, RelSeq: w.Seq, Bytes: append([]byte(nil), o.buf...), Dst: o.addr}
	ep.Probes = append(ep.Probes, pr)
	if ep.SinkClosed > 0 {
		pr.AfterClose = true
		ep.UseAfterClose = append(ep.UseAfterClose, "write")
	}
	ip, err := codec.DecodeIP(pr.Bytes, false)
	if err != nil {
		pr.DecErr = err.Error()
	}
	if ip != nil {
		pr.IP = ip
		pr.L4 = codec.DecodeL4(ip)
	}
	if pr.IP != nil && pr.L4 != nil && (pr.IP.Proto == codec.ProtoTCP || pr.IP.Proto == codec.ProtoUDP) && ep.localPort == 0 {
		// The kernel chooses local ports. Two endpoints alive at once never share one, but it may hand
		// the port of an endpoint that has gone to a later endpoint of the same run; a late reply to
		// the first then passes the second one's tuple filter - or not, depending on the kernel's
		// choice. Such an execution is not a function of the scenario: the worker repeats it.
		ep.localPort = pr.L4.SrcPort
		for _, e2 := range w.Eps {
			if e2 != ep && e2.localPort == ep.localPort && e2.localProto == pr.IP.Proto {
				w.PortReused = true
				w.stat("harness.kernel-port-reused")
			}
		}
		ep.localProto = pr.IP.Proto
		// The run sends from a port the kernel chose for it. While the run is alive nobody else must be
		// able to obtain that port (it is what tells concurrent runs to one target apart): a plain
		// bind to it has to be refused. SACK probes travel on an established connection of their own.
		if (pr.IP.Proto == codec.ProtoUDP || pr.L4.Flags&codec.FlagSYN != 0) && !w.Sc.Knobs.MustClosePort {
			if portObtainable(pr.IP.Proto, pr.IP.Src, pr.L4.SrcPort) {
				ep.PortNotReserved = true
				w.stat("probe.local-port-not-reserved")
			}
		}
	}
	if o.fault != nil && (o.fault.Class == "fatal" || o.fault.Class == "slowfatal") {
		pr.Failed = true
		w.stat("fault.write.fatal")
		w.fire(o, "fatal")
		w.Log.add(now, ep.Actor, "write", "FAULT ttl="+strconv.Itoa(pr.TTL()))
		w.unpark(o)
		o.done <- opResult{err: w.sentinel(o)}
		return
	}
	w.Log.add(now, ep.Actor, "write", "ttl="+strconv.Itoa(pr.TTL()))
	if pr.IP != nil && pr.L4 != nil && pr.IP.Proto == codec.ProtoTCP && pr.L4.Flags&codec.FlagSYN == 0 {
		w.bindConn(ep, netip.AddrPortFrom(pr.IP.Src, pr.L4.SrcPort), netip.AddrPortFrom(pr.IP.Dst, pr.L4.DstPort))
	}
	if pr.IP != nil && pr.L4 != nil {
		w.react(ep, pr, now)
	}
	w.unpark(o)
	if o.fault != nil && o.fault.Class == "stallret" {
		// +333ns: see the "stall" class
		d := time.Duration(o.fault.Us)*time.Microsecond + 333*time.Nanosecond
		pr.RetAt = now + d
		w.stat("fault.write.stallret")
		w.fire(o, "stallret")
		o.done <- opResult{stall: d}
		return
	}
	o.done <- opResult{}
}

// deliver puts an inbound packet on every live endpoint's capture queue (AF_PACKET semantics),
// subject to the filter installed at that instant.
func (w *World) deliver(id int, at time.Duration) {
	p := w.Pkts[id]
	p.At = at
	var frame []byte
	for len(p.Ep) < len(w.Eps) {
		p.Ep = append(p.Ep, PktEp{})
	}
	for _, ep := range w.Eps {
		if ep.SrcClosed > 0 || (p.OnlyEp > 0 && p.OnlyEp-1 != ep.Idx) {
			continue
		}
		pe := &p.Ep[ep.Idx]
		pe.Seen = true
		pe.FilterType = ep.FilterType
		pe.Accepted = true
		if ep.vm != nil {
			if frame == nil {
				frame = codec.EthernetFrame(p.Bytes, p.Ether)
			}
			n, err := ep.vm.Run(frame)
			if err != nil {
				pe.VMErr = err.Error()
			}
			pe.Accepted = n > 0 && err == nil
			if !pe.Accepted {
				w.stat("filter.rejected")
				if !w.Sc.Knobs.IgnoreFilters {
					continue
				}
			}
		}
		ep.queue = append(ep.queue, id)
	}
	w.Log.add(at, "wire", "arrive", "pkt"+strconv.Itoa(id))
}

// inject schedules an inbound packet.
func (w *World) inject(b []byte, at time.Duration, origin PktOrigin) int {
	id := len(w.Pkts)
	w.Pkts = append(w.Pkts, &PktRec{ID: id, Bytes: b, At: at, Origin: origin})
	w.schedule(event{at: at, kind: "arrive", pkt: id})
	return id
}

// portObtainable reports whether a fresh socket of the given protocol can be bound to addr:port
// (no SO_REUSEADDR / SO_REUSEPORT): true means the port is not held by anybody.
func portObtainable(proto uint8, addr netip.Addr, port uint16) bool {
	typ := syscall.SOCK_STREAM
	if proto == codec.ProtoUDP {
		typ = syscall.SOCK_DGRAM
	}
	addr = addr.Unmap()
	fam := syscall.AF_INET
	if addr.Is6() {
		fam = syscall.AF_INET6
	}
	fd, err := syscall.Socket(fam, typ|syscall.SOCK_CLOEXEC, 0)
	if err != nil {
		return false
	}
	defer syscall.Close(fd)
	var sa syscall.Sockaddr
	if addr.Is6() {
		sa = &syscall.SockaddrInet6{Port: int(port), Addr: addr.As16()}
	} else {
		sa = &syscall.SockaddrInet4{Port: int(port), Addr: addr.As4()}
	}
	return syscall.Bind(fd, sa) == nil
}

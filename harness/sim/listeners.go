package sim

import (
	"net"
	"net/netip"
	"strconv"
	"syscall"
	"time"

	"verifharness/codec"
)

type acceptedConn struct {
	fd         int
	remote     netip.AddrPort
	isn        uint32
	at         time.Duration
	synack     int // packet id, -1 when never sent
	unexpected bool
}

type lisState struct {
	Idx   int
	L     *Listener
	ln    *net.TCPListener
	Addr  netip.AddrPort
	Conns []*acceptedConn
}

// openListeners creates the real listening sockets of the scenario (inside the bubble).
func (w *World) openListeners() error {
	for i := range w.Sc.Listeners {
		l := &w.Sc.Listeners[i]
		ls := &lisState{Idx: i, L: l}
		if l.Closed {
			// a port nobody listens on and that the kernel never hands out as an ephemeral port (a
			// reserved-then-closed ephemeral port can be re-allocated at once, e.g. to the wildcard
			// listener a TCP SYN run holds): connecting yields ECONNREFUSED
			ls.Addr = netip.AddrPortFrom(netip.MustParseAddr(l.Addr), 1)
		} else {
			ln, err := net.Listen("tcp4", l.Addr+":"+strconv.Itoa(l.Port))
			if err != nil {
				return err
			}
			ls.ln = ln.(*net.TCPListener)
			ls.Addr = ln.Addr().(*net.TCPAddr).AddrPort()
		}
		w.Lis = append(w.Lis, ls)
	}
	return nil
}

func (w *World) closeListeners() {
	for _, ls := range w.Lis {
		for _, c := range ls.Conns {
			if c.fd >= 0 {
				syscall.SetsockoptLinger(c.fd, syscall.SOL_SOCKET, syscall.SO_LINGER, &syscall.Linger{Onoff: 1, Linger: 0})
				syscall.Close(c.fd)
				c.fd = -1
			}
		}
		if ls.ln != nil {
			ls.ln.Close()
		}
	}
}

// wantConns is the number of endpoints that have connected to this listener: SACK endpoints
// (first filter SYN-ACK) for its address that have got as far as a Read, i.e. whose dial succeeded.
func (w *World) wantConns(ls *lisState) int {
	n := 0
	for _, ep := range w.Eps {
		if ep.Addr == ls.Addr.Addr() && len(ep.Filters) > 0 && int(ep.Filters[0].Spec.FilterType) == 4 && ep.Filters[0].Err == "" && ep.readsParked > 0 {
			n++
		}
	}
	return n
}

func acceptOne(ln *net.TCPListener) (int, syscall.Sockaddr) {
	rc, err := ln.SyscallConn()
	if err != nil {
		return -1, nil
	}
	nfd := -1
	var sa syscall.Sockaddr
	rc.Control(func(fd uintptr) {
		nfd, sa, _ = syscall.Accept4(int(fd), syscall.SOCK_NONBLOCK|syscall.SOCK_CLOEXEC)
	})
	return nfd, sa
}

// pollListeners accepts the connection of every endpoint that has reached its handshake read and
// puts the matching synthetic SYN-ACK on the simulated wire, where every capture handle sees it.
// Connections are accepted exactly then (not whenever the kernel happens to have finished the
// three-way handshake, which on loopback may lag connect() by a softirq), so the position of the
// accept in the event sequence does not depend on kernel timing.
func (w *World) pollListeners(now time.Duration) {
	for _, ls := range w.Lis {
		if ls.ln == nil {
			continue
		}
		want := w.wantConns(ls)
		for spins := 0; len(ls.Conns) < want; {
			nfd, sa := acceptOne(ls.ln)
			if nfd < 0 {
				spins++
				if spins > 20000 {
					w.stat("harness.accept-timeout")
					break
				}
				ts := syscall.Timespec{Nsec: 50000}
				syscall.Nanosleep(&ts, nil) // real time: the bubble's clock must not move
				continue
			}
			w.accepted(ls, nfd, sa, now)
		}
	}
}

func (w *World) accepted(ls *lisState, nfd int, sa syscall.Sockaddr, now time.Duration) {
	c := &acceptedConn{fd: nfd, at: now, synack: -1}
	if s4, ok := sa.(*syscall.SockaddrInet4); ok {
		c.remote = netip.AddrPortFrom(netip.AddrFrom4(s4.Addr), uint16(s4.Port))
	}
	step := ls.L.ISNStep
	if step == 0 {
		step = 1 << 20
	}
	c.isn = ls.L.ISN + uint32(len(ls.Conns))*step
	ls.Conns = append(ls.Conns, c)
	w.stat("sack.accepted")
	w.nConns++
	w.Log.add(now, "lis"+strconv.Itoa(ls.Idx+1), "accept", "L"+strconv.Itoa(w.nConns))
	if ls.L.NoSynAck {
		w.stat("fault.noSynAck")
		return
	}
	seg := codec.TCPSeg{SrcPort: ls.Addr.Port(), DstPort: c.remote.Port(), Seq: ls.L.ServerSeq, Ack: c.isn,
		Flags: codec.FlagSYN | codec.FlagACK, Window: 65535}
	mss := []byte{2, 4, 0xff, 0xd7}
	var sackOK, ts []byte
	if ls.L.Permitted {
		sackOK = []byte{4, 2}
	}
	if ls.L.Timestamps {
		if ls.L.TruncTS {
			ts = []byte{8, 6, 0, 0, 0, 9}
		} else {
			ts = codec.TimestampOption(555000, 1234)
		}
	}
	wscale := []byte{3, 3, 7}
	cat := func(parts ...[]byte) []byte {
		var o []byte
		for _, p := range parts {
			o = append(o, p...)
		}
		return o
	}
	nop := []byte{1}
	var opts []byte
	switch ls.L.OptLayout {
	case "bsd": // mss,nop,wscale,nop,nop,TS,sackOK,eol (macOS / FreeBSD)
		opts = cat(mss, nop, wscale, nop, nop, ts, sackOK, []byte{0})
	case "win": // mss,nop,wscale,sackOK,TS
		opts = cat(mss, nop, wscale, sackOK, ts)
	case "tsfirst":
		opts = cat(ts, nop, nop, sackOK, mss, nop, wscale)
	case "sacklast":
		opts = cat(mss, nop, wscale, nop, nop, ts, nop, nop, sackOK)
	default: // mss,sackOK,TS,nop,wscale (Linux)
		opts = cat(mss, sackOK, ts, nop, wscale)
	}
	seg.Options = opts
	t := codec.BuildTCP(ls.Addr.Addr(), c.remote.Addr(), seg)
	b := codec.BuildIPv4(ls.Addr.Addr(), c.remote.Addr(), codec.ProtoTCP, 64, codec.V4Opts{Flags: 2}, t)
	c.synack = w.inject(b, now+time.Duration(ls.L.SynAckDelayUs)*time.Microsecond, PktOrigin{Handshake: true, Form: "handshake"})
	if ls.L.SynAckDupUs > 0 {
		w.inject(append([]byte(nil), b...), now+time.Duration(ls.L.SynAckDelayUs+ls.L.SynAckDupUs)*time.Microsecond, PktOrigin{Handshake: true, Form: "handshake", Copy: 1})
		w.stat("fault.synack-retransmitted")
	}
	if ls.L.FinAfterUs > 0 {
		fin := codec.TCPSeg{SrcPort: ls.Addr.Port(), DstPort: c.remote.Port(), Seq: ls.L.ServerSeq + 1, Ack: c.isn,
			Flags: codec.FlagFIN | codec.FlagACK, Window: 65535}
		if ls.L.Timestamps && !ls.L.TruncTS {
			fin.Options = cat(nop, nop, codec.TimestampOption(555900, 1234))
		}
		ft := codec.BuildTCP(ls.Addr.Addr(), c.remote.Addr(), fin)
		fb := codec.BuildIPv4(ls.Addr.Addr(), c.remote.Addr(), codec.ProtoTCP, 64, codec.V4Opts{Flags: 2}, ft)
		w.inject(fb, now+time.Duration(ls.L.SynAckDelayUs+ls.L.FinAfterUs)*time.Microsecond, PktOrigin{Form: "fin"})
		w.stat("fault.target-half-closes")
	}
}

// sweepListeners accepts whatever is left in the accept queues at the end of a run: connections
// nobody was expected to open (they count for the "no connection is opened" rules).
func (w *World) sweepListeners() {
	for _, ls := range w.Lis {
		if ls.ln == nil {
			continue
		}
		for k := 0; k < 64; k++ {
			nfd, sa := acceptOne(ls.ln)
			if nfd < 0 {
				break
			}
			c := &acceptedConn{fd: nfd, synack: -1, unexpected: true}
			if s4, ok := sa.(*syscall.SockaddrInet4); ok {
				c.remote = netip.AddrPortFrom(netip.AddrFrom4(s4.Addr), uint16(s4.Port))
			}
			ls.Conns = append(ls.Conns, c)
			w.stat("sack.accepted-unexpected")
		}
	}
}

// bindConn associates an endpoint with the accepted connection that owns its 4-tuple (the kernel may
// give two connections to different targets the same local port).
func (w *World) bindConn(ep *Endpoint, local, remote netip.AddrPort) {
	if ep.Conn != nil {
		return
	}
	for _, ls := range w.Lis {
		if ls.Addr != remote {
			continue
		}
		for _, c := range ls.Conns {
			if c.remote == local {
				ep.Conn = c
				ep.lis = ls
				return
			}
		}
	}
}

func (w *World) lisForEp(ep *Endpoint) *lisState { return ep.lis }

// ISN returns the initial sequence number the simulated target acknowledged in the SYN-ACK of the
// connection this endpoint probes (sack only).
func (ep *Endpoint) ISN() (uint32, bool) {
	if ep.Conn == nil {
		return 0, false
	}
	return ep.Conn.isn, true
}

// LisInfo summarises a listener for the oracles.
type LisInfo struct {
	Addr     string
	Port     uint16
	Accepted int
	Remotes  []uint16
}

// Listeners returns a summary of every scenario listener.
func (w *World) Listeners() []LisInfo {
	var out []LisInfo
	for _, ls := range w.Lis {
		li := LisInfo{Addr: ls.Addr.Addr().String(), Port: ls.Addr.Port(), Accepted: len(ls.Conns)}
		for _, c := range ls.Conns {
			li.Remotes = append(li.Remotes, c.remote.Port())
		}
		out = append(out, li)
	}
	return out
}

// DNSCalls returns the resolver invocations of the run.
func (w *World) DNSCalls() []*DNSCall { return w.dns.Calls }

// HTTPConns returns the provider connections of the run.
func (w *World) HTTPConns() []*HTTPConn { return w.httpSt.Conns }

package sim

import (
	"context"
	"fmt"
	"math/rand/v2"
	"net"
	"net/netip"
	"os"
	"strconv"
	"sync"
	"sync/atomic"
	"syscall"
	"testing"
	"testing/synctest"
	"time"

	gocache "github.com/patrickmn/go-cache"

	"verifharness/codec"

	"github.com/DataDog/datadog-traceroute/cache"
	"github.com/DataDog/datadog-traceroute/icmp"
	"github.com/DataDog/datadog-traceroute/packets"
	"github.com/DataDog/datadog-traceroute/tcp"
)

// Free-running mode (C14 only): the bubble provides the fake clock, but there is NO scheduler
// goroutine and no synctest.Wait — the Go scheduler interleaves the sender and receiver
// goroutines of the code under test freely, and the race detector watches. The wire must not
// introduce happens-before edges between Sink.WriteTo and Source.Read: they share no
// synchronisation object; the one thing that has to cross (the bytes of the latest probe, from
// which replies are derived) crosses as plain memory inside //go:norace functions, which are
// invisible to the detector and create no edge.

type freePlan struct {
	atUs int64 // relative to endpoint creation
	kind string
	k    int
	from string
}

type freeEndpoint struct {
	wsum    uint32 // checksum of everything written (keeps the instrumented read alive)
	w       *freeWorld
	idx     int
	addr    netip.Addr
	created time.Time
	plan    []freePlan
	next    int // receiver-side cursor (touched by the reading goroutine only)

	deadline time.Time // set and read by the receiver goroutine only

	// plain memory crossing from the sender to the receiver (see probeStore/probeLoad)
	probeLen int32
	probe    [128]byte
	nProbes  int32

	nWrites, failWrite int

	spec     packets.PacketFilterSpec
	lis      *net.TCPListener
	lisAddr  netip.AddrPort
	hsNext   int
	isn      uint32
	srcClose int32
	snkClose int32
}

type freeWorld struct {
	sc     *Scenario
	neps   atomic.Int32
	failed atomic.Int32
	lis    []*net.TCPListener

	// handshake phase only (before the engines' goroutines exist): SYN-ACKs of every accepted
	// connection, seen by every capture handle as on a real wire
	hsMu    sync.Mutex
	synacks [][]byte
}

// (byte loops, not copy(): the runtime's slicecopy carries its own race annotations)
//
//go:norace
func (ep *freeEndpoint) probeStore(b []byte) {
	n := len(b)
	if n > len(ep.probe) {
		n = len(ep.probe)
	}
	for i := 0; i < n; i++ {
		ep.probe[i] = b[i]
	}
	ep.probeLen = int32(n)
	ep.nProbes++
}

//go:norace
func (ep *freeEndpoint) probeLoad(dst []byte) (int, int) {
	n := int(ep.probeLen)
	if n > len(ep.probe) {
		n = len(ep.probe)
	}
	if n > len(dst) {
		n = len(dst)
	}
	for i := 0; i < n; i++ {
		dst[i] = ep.probe[i]
	}
	return n, int(ep.nProbes)
}

type freeSource struct{ ep *freeEndpoint }
type freeSink struct{ ep *freeEndpoint }

func (s *freeSink) WriteTo(buf []byte, addr netip.AddrPort) error {
	// a sink reads the bytes it is given (sendto does): an ordinary, instrumented read of the whole
	// packet, so that the detector sees anybody else writing into that memory at the same time. The
	// hand-over to the simulated wire below stays outside the detector's view.
	var sum uint32
	for _, b := range buf {
		sum += uint32(b)
	}
	atomic.AddUint32(&s.ep.wsum, sum)
	s.ep.nWrites++ // touched by the handle's one sender goroutine only
	if k := s.ep.failWrite; k > 0 && s.ep.nWrites == k {
		return &SentinelError{Actor: "free", Op: "write", K: k}
	}
	s.ep.probeStore(buf)
	return nil
}
func (s *freeSink) Close() error { atomic.AddInt32(&s.ep.snkClose, 1); return nil }

func (s *freeSource) SetReadDeadline(t time.Time) error { s.ep.deadline = t; return nil }
func (s *freeSource) Close() error                      { atomic.AddInt32(&s.ep.srcClose, 1); return nil }

func (s *freeSource) SetPacketFilter(spec packets.PacketFilterSpec) error {
	ep := s.ep
	if _, err := packets.VerifClassicBPFFilter(spec); err != nil {
		return fmt.Errorf("SetPacketFilter failed to get BPF filter program: %w", err)
	}
	ep.spec = spec
	return nil
}

// Read returns the next pre-seeded packet whose time has come, or times out at the deadline.
func (s *freeSource) Read(buf []byte) (int, error) {
	ep := s.ep
	for {
		now := time.Now()
		if !ep.deadline.IsZero() && !now.Before(ep.deadline) {
			return 0, os.ErrDeadlineExceeded
		}
		// SACK handshake: the SYN-ACK of our own connection, once the kernel has completed it
		if ep.spec.FilterType == packets.FilterTypeSYNACK {
			if b := ep.handshake(); b != nil {
				return copy(buf, b), nil
			}
		}
		var wake time.Time
		if ep.next < len(ep.plan) {
			p := ep.plan[ep.next]
			at := ep.created.Add(time.Duration(p.atUs) * time.Microsecond)
			if !now.Before(at) {
				ep.next++
				if b := ep.build(p); b != nil {
					return copy(buf, b), nil
				}
				continue
			}
			wake = at
		}
		if wake.IsZero() || (!ep.deadline.IsZero() && ep.deadline.Before(wake)) {
			wake = ep.deadline
		}
		if wake.IsZero() {
			wake = now.Add(50 * time.Millisecond)
		}
		time.Sleep(wake.Sub(now))
	}
}

func (ep *freeEndpoint) handshake() []byte {
	w := ep.w
	w.hsMu.Lock()
	defer w.hsMu.Unlock()
	for _, ln := range w.lis {
		rc, err := ln.SyscallConn()
		if err != nil {
			continue
		}
		for {
			nfd := -1
			var sa syscall.Sockaddr
			rc.Control(func(fd uintptr) {
				nfd, sa, _ = syscall.Accept4(int(fd), syscall.SOCK_NONBLOCK|syscall.SOCK_CLOEXEC)
			})
			if nfd < 0 {
				break
			}
			syscall.SetsockoptLinger(nfd, syscall.SOL_SOCKET, syscall.SO_LINGER, &syscall.Linger{Onoff: 1, Linger: 0})
			syscall.Close(nfd)
			s4, ok := sa.(*syscall.SockaddrInet4)
			if !ok {
				continue
			}
			la := ln.Addr().(*net.TCPAddr).AddrPort()
			remote := netip.AddrPortFrom(netip.AddrFrom4(s4.Addr), uint16(s4.Port))
			isn := 0x10000000 + uint32(len(w.synacks))<<20
			seg := codec.TCPSeg{SrcPort: la.Port(), DstPort: remote.Port(), Seq: 777, Ack: isn, Flags: codec.FlagSYN | codec.FlagACK, Window: 65535,
				Options: []byte{2, 4, 0xff, 0xd7, 4, 2, 1, 1}}
			if w.sc.Knobs.FreeTimestamps {
				seg.Options = append(append([]byte{2, 4, 0xff, 0xd7, 4, 2}, codec.TimestampOption(555000, 1234)...), 1, 3, 3, 7)
			}
			t := codec.BuildTCP(la.Addr(), remote.Addr(), seg)
			w.synacks = append(w.synacks, codec.BuildIPv4(la.Addr(), remote.Addr(), codec.ProtoTCP, 64, codec.V4Opts{Flags: 2}, t))
		}
	}
	if ep.hsNext < len(w.synacks) {
		b := w.synacks[ep.hsNext]
		ep.hsNext++
		return b
	}
	return nil
}

// build derives a reply from the bytes of the latest probe (a torn copy merely yields a packet
// that matches nothing).
func (ep *freeEndpoint) build(p freePlan) []byte {
	var pb [128]byte
	n, _ := ep.probeLoad(pb[:])
	if n < 28 {
		return nil
	}
	orig := pb[:n]
	ip, err := codec.DecodeIP(orig, true)
	if err != nil {
		return nil
	}
	pr := &ProbeRec{Bytes: orig, IP: ip, L4: codec.DecodeL4(ip)}
	hp := &HopPlan{TTL: int(ip.TTL), From: p.from}
	r := &Reply{Form: p.kind, K: p.k}
	switch p.kind {
	case "early": // a reply for a TTL that has not been probed yet
		r.Form, r.Perturb = "te28", "bump"
	case "earlyDest":
		r.Form, r.Perturb = "echo", "bump"
		if ip.Proto == codec.ProtoTCP {
			r.Form, r.Perturb = "sack", ""
		}
	case "dest":
		switch {
		case ip.Proto == codec.ProtoICMP || ip.Proto == codec.ProtoICMPv6:
			r.Form = "echo"
		case ip.Proto == codec.ProtoUDP:
			r.Form = "unreach:3"
		case pr.L4.Flags&codec.FlagSYN != 0:
			r.Form = "synack"
		default:
			r.Form = "sack"
		}
		hp.From = ip.Dst.String()
	case "noise":
		return []byte{0x45, 0, 0, 20, 0, 0, 0, 0, 9, 132, 0, 0, 1, 2, 3, 4, 5, 6, 7, 8}
	}
	fw := &World{Sc: ep.w.sc, Stats: map[string]int{}}
	fe := &Endpoint{Idx: ep.idx}
	if r.Form == "sack" {
		// the connection's initial sequence number, as the probe itself tells it (ISN + ttl)
		fe.Conn = &acceptedConn{isn: pr.L4.Seq - uint32(ip.TTL)}
		if ep.w.sc.Knobs.FreeTimestamps {
			// the target's timestamp clock has ticked since its SYN-ACK, and goes on ticking
			fe.lis = &lisState{L: &Listener{Timestamps: true}}
			_, np := ep.probeLoad(pb[:0])
			fe.tsTick = uint32(np)
		}
	}
	b, ok := fw.buildReply(fe, pr, hp, r)
	if !ok {
		return nil
	}
	return b
}

func (w *freeWorld) newSourceSink(addr netip.Addr, useDriver bool) (packets.SourceSinkHandle, bool, error) {
	idx := int(w.neps.Add(1)) - 1
	fail := w.sc.Knobs.FreeFailAll
	for _, k := range w.sc.Knobs.FreeFailNew {
		if k == idx+1 {
			fail = true
		}
	}
	if fail {
		w.failed.Add(1)
		return packets.SourceSinkHandle{}, true, &SentinelError{Actor: "free", Op: "new", K: idx + 1}
	}
	ep := &freeEndpoint{w: w, idx: idx, addr: addr, created: time.Now(), failWrite: w.sc.Knobs.FreeFailWrite}
	rng := rand.New(rand.NewPCG(uint64(w.sc.Knobs.RandSeed), uint64(idx)+1))
	// pre-seeded plan: replies relative to the creation instant, some of them "before their probe"
	c := &w.sc.Calls[0]
	n := c.MaxTTL - c.MinTTL + 1
	if n < 1 || n > 64 {
		n = 8
	}
	step := int64(c.DelayMs) * 1000
	at := int64(0)
	for k := 0; k < n*3; k++ {
		at += int64(rng.IntN(int(step)+400)) + 1
		kind := []string{"te28", "te28", "teFull", "early", "early", "earlyDest", "noise", "dest"}[rng.IntN(8)]
		if k < n && rng.IntN(3) == 0 {
			kind = "early"
		}
		from := fmt.Sprintf("11.9.%d.%d", idx%200, 1+k%200)
		if addr.Is6() {
			from = fmt.Sprintf("2001:db8:9:%x::%x", idx, 1+k)
		}
		ep.plan = append(ep.plan, freePlan{atUs: at, kind: kind, k: 1 + rng.IntN(3), from: from})
	}
	return packets.SourceSinkHandle{Source: &freeSource{ep}, Sink: &freeSink{ep}}, true, nil
}

var currentFree atomic.Pointer[freeWorld]

// ExecuteFree runs a scenario in free-running mode. Only entries that need no scheduler are
// supported: icmp, udp, tcp, sack, run_traceroute, alloc_stress.
func ExecuteFree(t *testing.T, sc *Scenario, outp **Outcome) {
	install()
	out := &Outcome{Sc: sc}
	*outp = out // published first: the testing package ends this (sub)test by Goexit when the detector fired
	start := time.Now()
	defer func() {
		out.RealNs = time.Since(start).Nanoseconds()
		currentFree.Store(nil)
		if r := recover(); r != nil {
			out.Deadlock = fmt.Sprint(r)
		}
	}()
	synctest.Test(t, func(t *testing.T) {
		fw := &freeWorld{sc: sc}
		w := NewWorld(sc, false) // only for call bookkeeping
		out.W = w
		w.dns = &dnsState{count: map[string]int{}}
		w.httpSt = &httpState{count: map[string]int{}}
		cache.Cache = gocache.New(5*time.Minute, 0)
		tcp.VerifSetSeqSource(nil)
		if sc.Knobs.SetEchoIDBase {
			icmp.VerifSetEchoIDBase(sc.Knobs.EchoIDBase)
		}
		for i := range sc.Listeners {
			ln, err := net.Listen("tcp4", sc.Listeners[i].Addr+":"+strconv.Itoa(sc.Listeners[i].Port))
			if err != nil {
				panic("verif-env: " + err.Error())
			}
			fw.lis = append(fw.lis, ln.(*net.TCPListener))
			w.Lis = append(w.Lis, &lisState{Idx: i, L: &sc.Listeners[i], Addr: ln.Addr().(*net.TCPAddr).AddrPort()})
		}
		defer func() {
			for _, ln := range fw.lis {
				ln.Close()
			}
		}()
		currentFree.Store(fw)
		done := make(chan int, len(w.Calls))
		for ci := range w.Calls {
			cs := w.Calls[ci]
			go func() {
				defer func() {
					if r := recover(); r != nil {
						cs.Panic = fmt.Sprint(r)
					}
					cs.Finished = true
					done <- cs.Idx
				}()
				time.Sleep(time.Duration(cs.C.StartUs) * time.Microsecond)
				cs.StartAt = w.now()
				w.runCall(context.Background(), cs)
				cs.EndAt = w.now()
			}()
		}
		for range w.Calls {
			<-done
		}
		out.Virtual = w.now()
		w.FreeFailed = int(fw.failed.Load())
		w.FreeEndpoints = int(fw.neps.Load())
	})
}

// freeLookup is the resolver of free-running mode: immediate, no shared state.
func freeLookup(ctx context.Context, addr string) ([]string, error) {
	if len(addr)%3 == 0 {
		return nil, errDNS
	}
	return []string{"host-" + addr + ".example."}, nil
}

package sim

import (
	"strconv"
	"context"
	"fmt"
	"math/rand"
	"net"
	"net/http"
	"net/netip"
	"os"
	"sort"
	"strings"
	"sync/atomic"
	"testing"
	"testing/synctest"
	"time"

	gocache "github.com/patrickmn/go-cache"

	"github.com/DataDog/datadog-traceroute/cache"
	"github.com/DataDog/datadog-traceroute/icmp"
	"github.com/DataDog/datadog-traceroute/packets"
	"github.com/DataDog/datadog-traceroute/reversedns"
	"github.com/DataDog/datadog-traceroute/tcp"
)

var current atomic.Pointer[World]

var installOnce atomic.Bool

// install wires the process-wide seams to "the current world".
func install() {
	if installOnce.Swap(true) {
		return
	}
	packets.VerifNewSourceSink = func(addr netip.Addr, useDriver bool) (packets.SourceSinkHandle, bool, error) {
		if fw := currentFree.Load(); fw != nil {
			return fw.newSourceSink(addr, useDriver)
		}
		w := current.Load()
		if w == nil {
			return packets.SourceSinkHandle{}, true, fmt.Errorf("verif: no simulated world")
		}
		return w.hookNewSourceSink(addr, useDriver)
	}
	reversedns.LookupAddrFn = func(ctx context.Context, addr string) ([]string, error) {
		if currentFree.Load() != nil {
			return freeLookup(ctx, addr)
		}
		w := current.Load()
		if w == nil {
			return nil, fmt.Errorf("verif: no simulated world")
		}
		return w.lookupAddr(ctx, addr)
	}
	tr := http.DefaultTransport.(*http.Transport)
	tr.DialTLSContext = func(ctx context.Context, network, addr string) (net.Conn, error) {
		if currentFree.Load() != nil {
			return nil, errRefused
		}
		w := current.Load()
		if w == nil {
			return nil, fmt.Errorf("verif: no simulated world")
		}
		return w.dialTLS(ctx, network, addr)
	}
	tr.DialContext = func(ctx context.Context, network, addr string) (net.Conn, error) {
		return nil, fmt.Errorf("verif: plain dial not simulated")
	}
}

// Outcome is everything the oracles may look at after a run.
type Outcome struct {
	W          *World
	Sc         *Scenario
	Deadlock   string // synctest's end-of-bubble complaint (blocked goroutines remain)
	NoReturn   bool   // some call never returned
	LeftParked []string
	LogHash    string
	SchedHash  uint64
	Virtual    time.Duration
	RealNs     int64
	Races      []RaceReport // free-running mode: reports the race detector wrote during this run
	Twin       *Outcome     // outcome of the derived scenario (Scenario.Twin), executed after this one
	// LeakedSockets: sockets the process holds after the run that it did not hold before it (the
	// simulated wire and services own no descriptors; the real listeners of the scenario are closed
	// by then): descriptors the code under test opened and never closed, e.g. a reserved local port
	LeakedSockets []string
}

// socketFDs lists the socket descriptors of the process (descriptor number and inode).
func socketFDs() map[string]bool {
	out := map[string]bool{}
	ents, err := os.ReadDir("/proc/self/fd")
	if err != nil {
		return out
	}
	for _, e := range ents {
		if l, err := os.Readlink("/proc/self/fd/" + e.Name()); err == nil && strings.HasPrefix(l, "socket:") {
			out[e.Name()+"="+l] = true
		}
	}
	return out
}

// RealTimeDialTimeout reports that a real TCP connect of the SACK path ran into its deadline. That
// deadline is the one thing in a run that is measured on the machine's clock (the netpoller arms it in
// real time even inside the bubble): a loopback connect only misses it when the worker process is
// starved of CPU for hundreds of milliseconds. Such an execution says nothing about the code under
// test; the worker executes the scenario again.
// LeftoverConns reports that a connection was still waiting in a listener's accept queue when the
// run ended. It happens legitimately (a cancelled run, a method that must not connect at all), and
// it is also the trace a connect that missed its real-time deadline leaves behind: the kernel had
// completed it, nobody came for it, and it may have been accepted in the place of a wanted one.
func (o *Outcome) LeftoverConns() bool {
	if o == nil || o.W == nil {
		return false
	}
	for _, ls := range o.W.Lis {
		for _, c := range ls.Conns {
			if c.unexpected {
				return true
			}
		}
	}
	return false
}

func (o *Outcome) RealTimeDialTimeout() bool {
	if o == nil || o.W == nil {
		return false
	}
	for _, ls := range o.W.Lis {
		if ls.L.Closed {
			return false // a scenario that wants the connect to fail
		}
	}
	hit := func(s string) bool {
		return strings.Contains(s, "dial tcp") && strings.Contains(s, "i/o timeout")
	}
	for _, c := range o.W.Calls {
		if c.Err != nil && hit(c.Err.Error()) {
			return true
		}
		if len(c.HTTPBody) > 0 && c.HTTPStatus != 200 && hit(string(c.HTTPBody)) {
			return true
		}
	}
	return false
}

// RaceReport is one report of the Go race detector.
type RaceReport struct {
	SiteA, SiteB string // first frame of the code under test in each of the two access stacks
	Text         string
}

// setAllocators positions the process-wide identifier allocators as the scenario asks.
func setAllocators(k *Knobs) {
	// The allocators are process-wide: left alone, their position would depend on how many runs the
	// worker process has executed before (and a bit flip in a quoted IP-ID maps to a different TTL
	// for a different base). Every run therefore starts from a position fixed by its scenario.
	pbase, ebase := k.PacketIDBase, k.EchoIDBase
	if !k.SetPacketIDBase {
		pbase = uint32(uint64(k.RandSeed)*2654435761) >> 8 & 0xffff
	}
	if !k.SetEchoIDBase {
		ebase = uint32(uint64(k.RandSeed)*40503) >> 4 & 0xffff
	}
	{
		cur := uint32(packets.AllocPacketID(0))
		delta := (pbase - cur) & 0xffff
		for delta >= 255 {
			packets.AllocPacketID(255)
			delta -= 255
		}
		if delta > 0 {
			packets.AllocPacketID(uint8(delta))
		}
	}
	icmp.VerifSetEchoIDBase(ebase)
	if k.SetTCPSeq {
		var n atomic.Uint32
		base := k.TCPSeqBase
		tcp.VerifSetSeqSource(func() uint32 { return base - (n.Add(1)-1)*0x9e3779b1 })
	} else {
		tcp.VerifSetSeqSource(nil)
	}
}

// Execute runs one scenario in a fresh bubble and returns what happened.
// Execute runs the scenario and, when it names a twin, the derived scenario after it (each in a
// bubble and a world of its own).
func Execute(t *testing.T, sc *Scenario, keepLog bool) *Outcome {
	out := executeOne(t, sc, keepLog)
	if tw := sc.DeriveTwin(); tw != nil && out.W != nil && out.Deadlock == "" {
		out.Twin = executeOne(t, tw, keepLog)
		out.LogHash += "+" + out.Twin.LogHash
		out.RealNs += out.Twin.RealNs
		if out.Twin.W != nil && out.Twin.W.PortReused {
			out.W.PortReused = true
		}
	}
	return out
}

func executeOne(t *testing.T, sc *Scenario, keepLog bool) (out *Outcome) {
	install()
	out = &Outcome{Sc: sc}
	start := time.Now()
	before := socketFDs()
	// (only inside a worker's private network namespace: the setting is per namespace, and the host's
	// must never be touched)
	if sc.Knobs.LocalPort > 0 && len(sc.Listeners) == 0 && os.Getenv("VERIF_NETNS") == "1" && os.Getenv("VERIF_ROLE") == "worker" {
		const f = "/proc/sys/net/ipv4/ip_local_port_range"
		if old, err := os.ReadFile(f); err == nil {
			v := strconv.Itoa(sc.Knobs.LocalPort)
			if os.WriteFile(f, []byte(v+" "+v), 0o644) == nil {
				defer os.WriteFile(f, old, 0o644)
			}
		}
	}
	defer func() {
		for k := range socketFDs() {
			if !before[k] {
				out.LeakedSockets = append(out.LeakedSockets, k)
			}
		}
		sort.Strings(out.LeakedSockets)
	}()
	defer func() {
		out.RealNs = time.Since(start).Nanoseconds()
		current.Store(nil)
		if r := recover(); r != nil {
			msg := fmt.Sprint(r)
			if strings.Contains(msg, "deadlock") {
				out.Deadlock = msg
				if out.W != nil {
					for _, c := range out.W.Calls {
						if !c.Finished {
							out.NoReturn = true
						}
					}
					out.finish()
				}
				return
			}
			panic(r)
		}
	}()
	synctest.Test(t, func(t *testing.T) {
		w := NewWorld(sc, keepLog)
		out.W = w
		w.dns = &dnsState{count: map[string]int{}}
		w.httpSt = &httpState{count: map[string]int{}}
		cache.Cache = gocache.New(5*time.Minute, 0)
		rand.Seed(sc.Knobs.RandSeed + 1)
		setAllocators(&sc.Knobs)
		if err := w.openListeners(); err != nil {
			panic(fmt.Sprintf("verif-env: cannot open listener: %v", err))
		}
		defer w.closeListeners()
		current.Store(w)
		w.Run()
		w.sweepListeners()
		w.drain()
		out.finish()
	})
	return out
}

func (o *Outcome) finish() {
	w := o.W
	o.LogHash = w.Log.Hash()
	o.SchedHash = w.Log.SchedHash()
	o.Virtual = w.MaxVirtual
	w.mu.Lock()
	o.LeftParked = o.LeftParked[:0]
	for _, p := range w.parked {
		o.LeftParked = append(o.LeftParked, p.actor+"/"+p.kind.String())
	}
	w.mu.Unlock()
}

// drain lets goroutines that legitimately finish shortly after the calls returned (HTTP
// transport loops closing their connections) run to completion; operations of leaked
// goroutines of the code under test (reads, writes) are never released.
func (w *World) drain() {
	for i := 0; i < 10000; i++ {
		synctest.Wait()
		now := w.now()
		ops := w.snapshot()
		var pick *op
		for _, o := range ops {
			switch o.kind {
			case opHTTPClose, opHTTPWrite:
				pick = o
			case opHTTPRead:
				if o.conn.closed {
					pick = o
				}
			case opHTTPDial:
				pick = o
			}
			if pick != nil {
				break
			}
		}
		if pick == nil {
			return
		}
		if pick.kind == opHTTPDial {
			w.release(pick, opResult{err: errRefused})
			continue
		}
		w.perform(pick, now)
	}
}

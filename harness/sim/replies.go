package sim

import (
	"encoding/binary"
	"encoding/hex"
	"fmt"
	"math/rand/v2"
	"net/netip"
	"strconv"
	"strings"
	"time"

	"verifharness/codec"
)

func mustAddr(s string) netip.Addr {
	a, err := netip.ParseAddr(s)
	if err != nil {
		panic(fmt.Sprintf("scenario address %q: %v", s, err))
	}
	return a
}

func splitForm(f string) (string, []string) {
	parts := strings.Split(f, ":")
	return parts[0], parts[1:]
}

func atoi(s string) int {
	v, _ := strconv.Atoi(s)
	return v
}

// fixV4Csum recomputes the header checksum of the IPv4 packet at the start of q (if complete).
func fixV4Csum(q []byte) {
	if len(q) < 20 || q[0]>>4 != 4 {
		return
	}
	ihl := int(q[0]&0xf) * 4
	if ihl < 20 || ihl > len(q) {
		return
	}
	q[10], q[11] = 0, 0
	binary.BigEndian.PutUint16(q[10:12], codec.Checksum(q[:ihl], 0))
}

func l4off(q []byte) int {
	if len(q) == 0 {
		return 0
	}
	if q[0]>>4 == 4 {
		return int(q[0]&0xf) * 4
	}
	return 40
}

func add16(b []byte, off int, k int) {
	if off+2 > len(b) {
		return
	}
	binary.BigEndian.PutUint16(b[off:], uint16(int(binary.BigEndian.Uint16(b[off:]))+k))
}
func add32(b []byte, off int, k int) {
	if off+4 > len(b) {
		return
	}
	binary.BigEndian.PutUint32(b[off:], uint32(int64(binary.BigEndian.Uint32(b[off:]))+int64(k)))
}

// perturbQuote applies a single-field perturbation to (a copy of) the probe before it is quoted
// inside an ICMP error. It reports whether the perturbation applies to this kind of probe.
func perturbQuote(q []byte, pr *ProbeRec, perturb string, k int) ([]byte, bool) {
	if k == 0 {
		k = 1
	}
	v4 := q[0]>>4 == 4
	lo := l4off(q)
	proto := pr.IP.Proto
	switch perturb {
	case "":
		return q, true
	case "qdst":
		if v4 {
			q[19] ^= byte(k) | 1
			fixV4Csum(q)
		} else {
			q[39] ^= byte(k) | 1
		}
	case "qsrc":
		if v4 {
			q[15] ^= byte(k) | 1
			fixV4Csum(q)
		} else {
			q[23] ^= byte(k) | 1
		}
	case "qsport":
		if proto != codec.ProtoUDP && proto != codec.ProtoTCP {
			return q, false
		}
		add16(q, lo, k)
	case "qdport":
		if proto != codec.ProtoUDP && proto != codec.ProtoTCP {
			return q, false
		}
		add16(q, lo+2, k)
	case "id":
		if proto != codec.ProtoICMP && proto != codec.ProtoICMPv6 {
			return q, false
		}
		add16(q, lo+4, k)
	case "seqLo":
		if proto != codec.ProtoICMP && proto != codec.ProtoICMPv6 {
			return q, false
		}
		add16(q, lo+6, k)
	case "seqHi":
		if proto != codec.ProtoICMP && proto != codec.ProtoICMPv6 {
			return q, false
		}
		add16(q, lo+6, 256*k)
	case "qtype":
		// the quoted message is of another ICMP kind that also carries an identifier and a sequence
		// number in bytes 4..8 (timestamp, information, address mask) or does not (redirect, router
		// solicitation): the run's id/seq are there, but it is not a quote of an echo request
		if proto != codec.ProtoICMP && proto != codec.ProtoICMPv6 {
			return q, false
		}
		if proto == codec.ProtoICMP {
			q[lo] = []byte{13, 15, 17, 5, 10, 14}[nz(k)%6]
		} else {
			q[lo] = []byte{130, 133, 135, 1, 139, 3}[nz(k)%6]
		}
	case "ipid":
		if !v4 || proto == codec.ProtoICMP {
			return q, false
		}
		add16(q, 4, k)
		fixV4Csum(q)
	case "ipidSwap":
		// the quoted identification with its two bytes exchanged (a stack that quotes header fields in
		// host byte order): another identification, unless both bytes are equal
		if !v4 || proto == codec.ProtoICMP || q[4] == q[5] {
			return q, false
		}
		q[4], q[5] = q[5], q[4]
		fixV4Csum(q)
	case "ipidHi":
		if !v4 || proto == codec.ProtoICMP {
			return q, false
		}
		add16(q, 4, 256*k)
		fixV4Csum(q)
	case "v6len":
		if v4 || proto != codec.ProtoUDP {
			return q, false
		}
		add16(q, 4, k)
	case "qseq":
		if proto != codec.ProtoTCP {
			return q, false
		}
		add32(q, lo+4, k)
	case "bump":
		// move the per-probe identifier by k probes' worth, whatever the scheme
		switch {
		case proto == codec.ProtoICMP || proto == codec.ProtoICMPv6:
			add16(q, lo+6, k)
		case proto == codec.ProtoUDP && v4:
			add16(q, 4, k)
			fixV4Csum(q)
		case proto == codec.ProtoUDP:
			add16(q, 4, k)
		case proto == codec.ProtoTCP && pr.L4.Flags&codec.FlagSYN != 0:
			add16(q, 4, k)
			fixV4Csum(q)
		case proto == codec.ProtoTCP:
			add32(q, lo+4, k)
		}
	case "foreign":
		// another flow altogether: different target, different identifiers
		if v4 {
			q[18] ^= 0x55
			q[19] ^= byte(k) | 1
			add16(q, 4, 7777)
			fixV4Csum(q)
		} else {
			q[38] ^= 0x55
			q[39] ^= byte(k) | 1
		}
		add16(q, lo, 101)
		add16(q, lo+2, 211)
		add16(q, lo+4, 3331)
	default:
		return q, false
	}
	return q, true
}

func teRewrite(q []byte, k int) []byte {
	if q[0]>>4 == 4 {
		q[8] = byte(k & 1)                                                   // TTL as the router saw it: 1 or 0
		q[1] = [...]byte{0xb8, 0xb8, 0x20, 0xc0, 0x03, 0xff}[(uint(k)>>2)%6] // TOS rewritten on the way (DSCP re-marked, ECN set)
		if k&2 == 0 {
			fixV4Csum(q)
		}
	} else {
		q[7] = byte(k & 1)
		// traffic class re-marked on the way (it straddles the first two bytes: version|TC high, TC low|flow label high)
		tc := [...]byte{0x00, 0x03, 0x20, 0xb8, 0xc0, 0xff}[(uint(k)>>2)%6]
		q[0] = 0x60 | tc>>4
		q[1] = tc<<4 | 0x0f // ... and flow label bits
	}
	return q
}

func natRewrite(q []byte, pr *ProbeRec) []byte {
	lo := l4off(q)
	if q[0]>>4 == 4 {
		copy(q[12:16], []byte{10, 77, 1, 9})
		fixV4Csum(q)
	} else {
		copy(q[8:24], netip.MustParseAddr("fd12:3456::99").AsSlice())
	}
	if pr.IP.Proto == codec.ProtoUDP || pr.IP.Proto == codec.ProtoTCP {
		add16(q, lo, 1027)
	}
	return q
}

// buildReply constructs one inbound packet in reaction to probe pr. ok=false means the
// form/perturbation does not apply to this probe (nothing is emitted).
func (w *World) buildReply(ep *Endpoint, pr *ProbeRec, hp *HopPlan, r *Reply) (b []byte, ok bool) {
	fromS := r.From
	if fromS == "" {
		fromS = hp.From
	}
	if fromS == "" {
		return nil, false
	}
	from := mustAddr(fromS)
	orig := pr.Bytes
	ip, l4 := pr.IP, pr.L4
	base, args := splitForm(r.Form)
	if base == "teXfam" {
		// the other address family: an ICMPv6 time-exceeded sent by an IPv6 router to ::ffff:<local>,
		// quoting this IPv4 probe as an IPv6 packet between the IPv4-mapped forms of its addresses (same
		// transport identifiers; an echo request becomes an ICMPv6 echo request). It answers no probe
		// of an IPv4 run.
		if ip.Version != 4 || !from.Is6() || from.Is4In6() || len(orig) < int(ip.HdrLen)+8 {
			return nil, false
		}
		mapped := func(a netip.Addr) netip.Addr { return netip.AddrFrom16(a.As16()) }
		l4b := append([]byte(nil), orig[ip.HdrLen:]...)
		nh := ip.Proto
		if ip.Proto == codec.ProtoICMP {
			nh = codec.ProtoICMPv6
			l4b[0] = codec.V6Echo
		}
		inner := codec.BuildIPv6(mapped(ip.Src), mapped(ip.Dst), nh, 1, l4b)
		if len(inner) > 48+8*(r.K%4) {
			inner = inner[:48+8*(r.K%4)]
		}
		m := codec.ICMP(from, mapped(ip.Src), codec.V6TimeExceeded, 0, [4]byte{}, inner)
		return codec.BuildIPv6(from, mapped(ip.Src), codec.ProtoICMPv6, 61, m), true
	}
	if from.Is4() != ip.Dst.Is4() {
		return nil, false
	}
	k := r.K
	quoteForm := func(typ, code uint8, o codec.ICMPErrOpts) ([]byte, bool) {
		applies := true
		prev := o.Mutate
		o.Mutate = func(q []byte) []byte {
			if prev != nil {
				q = prev(q)
			}
			q, applies = perturbQuote(q, pr, r.Perturb, k)
			return q
		}
		b, err := codec.ICMPError(from, typ, code, orig, o)
		if err != nil || !applies {
			return nil, false
		}
		return b, true
	}
	te := codec.TimeExceededType(ip.Dst)
	switch base {
	case "te28":
		b, ok = quoteForm(te, 0, codec.ICMPErrOpts{Quote: codec.Quote28})
	case "teFull":
		b, ok = quoteForm(te, 0, codec.ICMPErrOpts{Quote: codec.QuoteFull})
	case "te4884":
		b, ok = quoteForm(te, 0, codec.ICMPErrOpts{Quote: codec.Quote4884})
	case "teOpt":
		o := codec.ICMPErrOpts{Quote: codec.Quote28}
		if ip.Version == 4 {
			o.OuterOptions = []byte{0x94, 4, 0, 0, 1, 1, 1, 0} // router alert + padding
			o.OuterTOS = 0xc0
		}
		b, ok = quoteForm(te, 0, o)
	case "teRewr":
		b, ok = quoteForm(te, 0, codec.ICMPErrOpts{Quote: codec.Quote28, Mutate: func(q []byte) []byte { return teRewrite(q, k) }})
	case "teNat":
		b, ok = quoteForm(te, 0, codec.ICMPErrOpts{Quote: codec.Quote28, Mutate: func(q []byte) []byte { return natRewrite(q, pr) }})
	case "unreach", "unreachFull":
		code := uint8(3)
		if len(args) > 0 {
			code = uint8(atoi(args[0]))
		}
		qk := codec.Quote28
		if base == "unreachFull" {
			qk = codec.QuoteFull
		}
		o := codec.ICMPErrOpts{Quote: qk}
		if len(args) > 1 && args[1] == "rw" {
			// the probe was re-marked on its way (TOS / traffic class, TTL as it arrived): the quote shows it
			o.Mutate = func(q []byte) []byte { return teRewrite(q, k) }
		}
		b, ok = quoteForm(codec.UnreachableType(ip.Dst), code, o)
	case "echo":
		if ip.Proto != codec.ProtoICMP && ip.Proto != codec.ProtoICMPv6 {
			return nil, false
		}
		o2 := append([]byte(nil), orig...)
		lo := l4off(o2)
		switch r.Perturb {
		case "":
		case "id":
			add16(o2, lo+4, max(k, 1))
		case "seqLo", "bump":
			add16(o2, lo+6, nz(k))
		case "seqHi":
			add16(o2, lo+6, 256*nz(k))
		default:
			return nil, false
		}
		var err error
		b, err = codec.EchoReply(from, o2)
		ok = err == nil
	case "synack", "rst", "rstack", "sack", "plainack":
		if ip.Proto != codec.ProtoTCP || ip.Version != 4 {
			return nil, false
		}
		seg := codec.TCPSeg{SrcPort: l4.DstPort, DstPort: l4.SrcPort, Window: 65535}
		switch base {
		case "synack":
			seg.Flags = codec.FlagSYN | codec.FlagACK
			seg.Seq = 0x51a00000 + uint32(k)
			seg.Ack = l4.Seq + 1
			seg.Options = []byte{2, 4, 5, 0xb4}
		case "rst":
			seg.Flags = codec.FlagRST
			seg.Seq = l4.Ack
		case "rstack":
			seg.Flags = codec.FlagRST | codec.FlagACK
			seg.Ack = l4.Seq + 1
		}
		if (base == "synack" || base == "rst" || base == "rstack") && len(args) > 0 {
			// further flag bits a real stack may set (ECE 0x40, CWR 0x80, PSH 0x08, URG 0x20)
			seg.Flags |= uint8(atoi(args[0])) & 0xe8
		}
		switch base {
		case "sack", "plainack":
			seg.Flags = codec.FlagACK
			seg.Seq = l4.Ack // what the driver acknowledged = server's next sequence
			lis := w.lisForEp(ep)
			if lis != nil && lis.L.GreetingLen > 0 {
				// the target has sent data of its own since the SYN-ACK (a banner the capture filter of the
				// handshake phase dropped): its segments carry a sequence number that has moved on
				seg.Seq += uint32(lis.L.GreetingLen)
			}
			isn := l4.Seq - uint32(ip.TTL)
			if ep.Conn != nil {
				isn = ep.Conn.isn
			}
			seg.Ack = isn
			if ep.Conn != nil && l4.Seq-ep.Conn.isn > 1<<16 {
				// the segment is outside the receive window of the connection that owns this 4-tuple
				// (a driver probing with another connection's sequence numbers): a real stack answers
				// with a bare challenge ACK carrying its own numbers, never with SACK blocks
				base = "plainack"
				w.stat("sack.out-of-window-probe")
			}
			var opts []byte
			if lis != nil && lis.L.Timestamps {
				opts = append(opts, 1, 1)
				opts = append(opts, codec.TimestampOption(777000+uint32(len(ep.sackSeqs))+ep.tsTick, tsValOf(l4))...)
			}
			if base == "sack" {
				blocks := sackBlocks(ep.sackSeqs, l4.Seq, len(opts) > 0)
				switch r.Perturb {
				case "sackEdge":
					for i := range blocks {
						blocks[i][0] += uint32(1000 * nz(k))
						blocks[i][1] += uint32(1000 * nz(k))
					}
				case "sackBelow":
					for i := range blocks {
						blocks[i][0] -= uint32(300 * nz(k))
						blocks[i][1] -= uint32(300 * nz(k))
					}
				case "sackStray":
					// 1-7 stray bytes after the last block, still inside the option (length 2+8n+s)
				case "sackOrder":
					for i, j := 0, len(blocks)-1; i < j; i, j = i+1, j-1 {
						blocks[i], blocks[j] = blocks[j], blocks[i]
					}
				}
				opts = append(opts, 1, 1)
				so := codec.SackOption(blocks)
				if r.Perturb == "sackStray" {
					if len(blocks) > 2 {
						so = codec.SackOption(blocks[:2])
					}
					for s := 1 + nz(k)%7; s > 0; s-- {
						so = append(so, byte(0xa0+s))
					}
					so[1] = byte(len(so))
				}
				opts = append(opts, so...)
			}
			seg.Options = opts
		}
		switch r.Perturb {
		case "", "sackEdge", "sackBelow", "sackOrder", "sackStray":
		case "sport":
			seg.SrcPort += uint16(nz(k))
		case "dport":
			seg.DstPort += uint16(nz(k))
		case "ack":
			// acknowledges a sequence number this run never used (another incarnation of the flow)
			if seg.Flags&codec.FlagACK == 0 || base == "sack" || base == "plainack" {
				return nil, false
			}
			seg.Ack += uint32(nz(k)) * 7919
		default:
			return nil, false
		}
		t := codec.BuildTCP(from, ip.Src, seg)
		vo := codec.V4Opts{ID: 0x3333, Flags: 2}
		if r.OuterOpts {
			vo.Options = []byte{7, 11, 8, 198, 51, 100, 1, 0, 0, 0, 0, 1} // record route + padding: IHL 8
		}
		b = codec.BuildIPv4(from, ip.Src, codec.ProtoTCP, 60, vo, t)
		ok = true
	case "own":
		b, ok = append([]byte(nil), orig...), true
	default:
		panic("unknown reply form " + r.Form)
	}
	if !ok {
		return nil, false
	}
	if r.Var != 0 {
		b = varyOuter(b, r.Var)
		if r.Var&(1<<30) != 0 && len(b) < 46 {
			// the frame crossed an Ethernet segment: datagrams shorter than the minimum payload arrive
			// zero-padded to 46 bytes, and a packet socket hands the padding over with the datagram
			b = append(b, make([]byte, 46-len(b))...)
		}
	}
	if r.Garbage != "" {
		b = applyGarbage(b, r.Garbage)
	}
	return b, true
}

// varyOuter rewrites outer-header fields no matcher may depend on.
func varyOuter(b []byte, v uint32) []byte {
	if len(b) < 20 {
		return b
	}
	switch b[0] >> 4 {
	case 4:
		ihl := int(b[0]&0x0f) * 4
		if ihl < 20 || ihl > len(b) {
			return b
		}
		b[1] = byte(v)
		binary.BigEndian.PutUint16(b[4:6], uint16(v>>8))
		if v&(1<<27) != 0 {
			b[6] ^= 0x40 // DF
		}
		b[8] = byte(1 + (v>>24)%255)
		b[10], b[11] = 0, 0
		binary.BigEndian.PutUint16(b[10:12], codec.Checksum(b[:ihl], 0))
	case 6:
		if len(b) < 40 {
			return b
		}
		w := binary.BigEndian.Uint32(b[0:4])
		w = w&0xf0000000 | v&0x0fffffff
		binary.BigEndian.PutUint32(b[0:4], w)
		b[7] = byte(1 + (v>>24)%255)
	}
	return b
}

func nz(k int) int {
	if k == 0 {
		return 1
	}
	return k
}

func tsValOf(l4 *codec.L4) uint32 {
	for _, o := range codec.ParseTCPOptions(l4.TCPOptions) {
		if o.Kind == 8 && len(o.Data) >= 8 {
			return binary.BigEndian.Uint32(o.Data[:4])
		}
	}
	return 0
}

// sackBlocks models a real receiver: the block containing the most recent segment first, then
// the other out-of-order ranges, at most 3 (with timestamps) or 4.
func sackBlocks(prev []uint32, latest uint32, ts bool) [][2]uint32 {
	all := append(append([]uint32(nil), prev...), latest)
	// ranges of contiguous one-byte segments
	type rng struct{ lo, hi uint32 }
	var rs []rng
	used := map[uint32]bool{}
	for _, s := range all {
		used[s] = true
	}
	seen := map[uint32]bool{}
	mk := func(s uint32) rng {
		lo, hi := s, s+1
		for used[lo-1] {
			lo--
		}
		for used[hi] {
			hi++
		}
		return rng{lo, hi}
	}
	first := mk(latest)
	rs = append(rs, first)
	seen[first.lo] = true
	for i := len(all) - 1; i >= 0; i-- {
		r := mk(all[i])
		if !seen[r.lo] {
			seen[r.lo] = true
			rs = append(rs, r)
		}
	}
	maxB := 4
	if ts {
		maxB = 3
	}
	if len(rs) > maxB {
		rs = rs[:maxB]
	}
	out := make([][2]uint32, len(rs))
	for i, r := range rs {
		out[i] = [2]uint32{r.lo, r.hi}
	}
	return out
}

func applyGarbage(b []byte, g string) []byte {
	base, args := splitForm(g)
	b = append([]byte(nil), b...)
	switch base {
	case "trunc": // keep the first n bytes
		n := atoi(args[0])
		if n < len(b) {
			b = b[:n]
		}
	case "cut": // drop the last n bytes
		n := atoi(args[0])
		if n >= len(b) {
			n = len(b) - 1
		}
		b = b[:len(b)-n]
	case "flip":
		off, mask := atoi(args[0]), atoi(args[1])
		if off < len(b) {
			b[off] ^= byte(mask)
		}
	case "set":
		// always changes the byte (the outcome must not depend on what a kernel-chosen port byte
		// happened to be)
		off, val := atoi(args[0]), atoi(args[1])
		if off < len(b) {
			if b[off] == byte(val) {
				val ^= 0xff
			}
			b[off] = byte(val)
		}
	case "append":
		n := atoi(args[0])
		for i := 0; i < n; i++ {
			b = append(b, byte(i*37+11))
		}
	}
	return b
}

// react is called when a probe is released onto the wire: it schedules the replies planned for
// (flow, ttl) and, if the knob is set, the capture of the outgoing probe itself.
func (w *World) react(ep *Endpoint, pr *ProbeRec, now time.Duration) {
	ttl := pr.TTL()
	if w.Sc.Knobs.CaptureOutgoing {
		w.inject(append([]byte(nil), pr.Bytes...), now, PktOrigin{Flow: ep.Actor, TTL: ttl, Own: true})
		w.stat("pkt.own")
	}
	if ep.flow == nil {
		return
	}
	for _, l := range ep.flow.ProbeLoss {
		if l == ttl {
			pr.Lost = true
			w.stat("fault.probeLoss")
			return
		}
	}
	var hp *HopPlan
	for i := range ep.flow.Hops {
		if ep.flow.Hops[i].TTL == ttl {
			hp = &ep.flow.Hops[i]
			break
		}
	}
	if hp == nil {
		return
	}
	isSackProbe := pr.IP.Proto == codec.ProtoTCP && pr.L4.Flags&codec.FlagSYN == 0
	reachedTarget := false
	for ri := range hp.Replies {
		r := &hp.Replies[ri]
		if fb, _ := splitForm(r.Form); ep.flow.TargetByArrival && isSackProbe && (fb == "sack" || fb == "plainack") {
			// the target sees this probe when its answer is due; the answer is built then, from what
			// the target has received by then
			first := !reachedTarget
			reachedTarget = true
			w.schedule(event{at: now + time.Duration(r.DelayUs)*time.Microsecond, kind: "fn", fn: func(at time.Duration) {
				if first {
					ep.sackSeqs = append(ep.sackSeqs, pr.L4.Seq)
				}
				b, ok := w.buildReply(ep, pr, hp, r)
				if !ok {
					w.stat("reply.inapplicable")
					return
				}
				o := PktOrigin{Flow: ep.Actor, TTL: ttl, Form: r.Form, Perturb: r.Perturb, Garbage: r.Garbage}
				w.inject(b, at, o)
				w.stat("pkt.form." + fb)
				w.stat("sack.target-by-arrival")
				for d := 1; d <= r.Dup; d++ {
					o2 := o
					o2.Copy = d
					w.inject(append([]byte(nil), b...), at+time.Duration(int64(d)*max64(r.DupGapUs, 1))*time.Microsecond, o2)
					w.stat("fault.duplicate")
				}
			}})
			continue
		}
		b, ok := w.buildReply(ep, pr, hp, r)
		if !ok {
			w.stat("reply.inapplicable")
			continue
		}
		base, _ := splitForm(r.Form)
		if base == "sack" || base == "plainack" {
			reachedTarget = true
		}
		at := now + time.Duration(r.DelayUs)*time.Microsecond
		o := PktOrigin{Flow: ep.Actor, TTL: ttl, Form: r.Form, Perturb: r.Perturb, Garbage: r.Garbage}
		w.inject(b, at, o)
		w.stat("pkt.form." + base)
		if r.Perturb != "" {
			w.stat("pkt.perturb." + r.Perturb)
		}
		if r.Garbage != "" {
			gb, _ := splitForm(r.Garbage)
			w.stat("pkt.garbage." + gb)
		}
		for d := 1; d <= r.Dup; d++ {
			o2 := o
			o2.Copy = d
			w.inject(append([]byte(nil), b...), at+time.Duration(int64(d)*max64(r.DupGapUs, 1))*time.Microsecond, o2)
			w.stat("fault.duplicate")
		}
	}
	if isSackProbe && reachedTarget && !ep.flow.TargetByArrival {
		ep.sackSeqs = append(ep.sackSeqs, pr.L4.Seq)
	}
}

func max64(a, b int64) int64 {
	if a > b {
		return a
	}
	return b
}

func (w *World) scheduleNoise(i int) {
	n := &w.Sc.Noise[i]
	at := time.Duration(n.AtUs) * time.Microsecond
	count := 0
	for {
		b := buildNoise(n, count)
		w.inject(b, at, PktOrigin{Noise: n.Kind, Copy: count})
		w.stat("pkt.noise")
		count++
		if n.EveryUs <= 0 {
			break
		}
		at += time.Duration(n.EveryUs) * time.Microsecond
		if at > time.Duration(n.UntilUs)*time.Microsecond || count > 200000 {
			break
		}
	}
}

func buildNoise(n *Noise, count int) []byte {
	base, args := splitForm(n.Kind)
	rng := rand.New(rand.NewPCG(uint64(n.Seed), uint64(count)+1))
	a4 := func() netip.Addr {
		return netip.AddrFrom4([4]byte{byte(1 + rng.IntN(222)), byte(rng.IntN(256)), byte(rng.IntN(256)), byte(1 + rng.IntN(254))})
	}
	switch base {
	case "rand":
		l := atoi(args[0])
		b := make([]byte, l)
		for i := range b {
			b[i] = byte(rng.Uint32())
		}
		return b
	case "randv4", "randv6":
		l := atoi(args[0])
		b := make([]byte, l)
		for i := range b {
			b[i] = byte(rng.Uint32())
		}
		if len(b) > 0 {
			if base == "randv4" {
				b[0] = 0x40 | b[0]&0xf
			} else {
				b[0] = 0x60 | b[0]&0xf
			}
		}
		return b
	case "tcpother":
		s, d := a4(), a4()
		t := codec.BuildTCP(s, d, codec.TCPSeg{SrcPort: uint16(rng.Uint32()), DstPort: uint16(rng.Uint32()), Seq: rng.Uint32(), Ack: rng.Uint32(), Flags: uint8(rng.Uint32()) & 0x3f, Window: 100})
		return codec.BuildIPv4(s, d, codec.ProtoTCP, 50, codec.V4Opts{ID: uint16(rng.Uint32())}, t)
	case "udpother":
		s, d := a4(), a4()
		u := codec.BuildUDP(s, d, uint16(rng.Uint32()), uint16(rng.Uint32()), []byte("unrelated"))
		return codec.BuildIPv4(s, d, codec.ProtoUDP, 50, codec.V4Opts{}, u)
	case "icmpother":
		// a time-exceeded for somebody else's UDP probe
		s, d, r := a4(), a4(), a4()
		u := codec.BuildUDP(s, d, uint16(rng.Uint32()), 33434, []byte("NSMNC\x00\x00\x00"))
		orig := codec.BuildIPv4(s, d, codec.ProtoUDP, 1, codec.V4Opts{ID: uint16(41821 + rng.IntN(30))}, u)
		b, _ := codec.ICMPError(r, codec.V4TimeExceeded, 0, orig, codec.ICMPErrOpts{})
		return b
	case "badicmp":
		// an ICMP datagram no parser can make sense of (it passes every capture filter: they all let
		// ICMP through): the ICMP header is cut short, the IP header claims options it does not have,
		// or an error quotes half an IP header
		s, d := a4(), a4()
		which := rng.IntN(3)
		if len(args) > 0 {
			which = atoi(args[0]) // a flood of one kind: every frame of it is undecodable
		}
		switch which {
		case 0:
			return codec.BuildIPv4(s, d, codec.ProtoICMP, 50, codec.V4Opts{}, []byte{11, 0, 0}[:1+rng.IntN(3)])
		case 1:
			b := codec.BuildIPv4(s, d, codec.ProtoICMP, 50, codec.V4Opts{}, []byte{11, 0, 0xf4, 0xff, 0, 0, 0, 0})
			b[0] = 0x4f // IHL 60 in a 28-byte datagram
			return b
		}
		m := codec.ICMP(s, d, codec.V4TimeExceeded, 0, [4]byte{}, []byte{0x45, 0, 0, 40, 0, 1, 0, 0, 1, 17})
		return codec.BuildIPv4(s, d, codec.ProtoICMP, 50, codec.V4Opts{}, m)
	case "synack":
		// a SYN-ACK from the given address:port to some other local socket (args: addr, port): passes a
		// SYN-ACK capture filter without belonging to anybody's handshake
		src := netip.MustParseAddr(args[0])
		d := netip.MustParseAddr("127.0.0.1")
		if !src.IsLoopback() {
			d = netip.MustParseAddr("192.0.2.2")
		}
		t := codec.BuildTCP(src, d, codec.TCPSeg{SrcPort: uint16(atoi(args[1])), DstPort: uint16(20000 + rng.IntN(10000)), Seq: rng.Uint32(), Ack: rng.Uint32(), Flags: codec.FlagSYN | codec.FlagACK, Window: 100, Options: []byte{2, 4, 5, 0xb4, 4, 2}})
		return codec.BuildIPv4(src, d, codec.ProtoTCP, 50, codec.V4Opts{ID: uint16(rng.Uint32())}, t)
	case "sctp":
		s, d := a4(), a4()
		return codec.BuildIPv4(s, d, 132, 50, codec.V4Opts{}, []byte{0, 1, 0, 2, 0, 0, 0, 0, 0, 0, 0, 0, 1, 0, 0, 4})
	case "v6frag":
		s := netip.MustParseAddr("2001:db8:1::7")
		d := netip.MustParseAddr("2001:db8:2::9")
		m := codec.ICMP(s, d, codec.V6TimeExceeded, 0, [4]byte{}, []byte{0x60, 0, 0, 0})
		frag := append([]byte{codec.ProtoICMPv6, 0, 0, 0, 0, 0, 0, 1}, m...)
		return codec.BuildIPv6(s, d, codec.ProtoFrag6, 50, frag)
	case "hex":
		b, err := hex.DecodeString(args[0])
		if err != nil {
			panic(err)
		}
		return b
	}
	panic("unknown noise kind " + n.Kind)
}

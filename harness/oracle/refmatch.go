// Package oracle holds the reference models the simulated runs are compared against. Everything
// here is written from the property texts in /verif/properties.jsonl and uses only the harness
// codec; it never looks at internals of the code under test.
package oracle

import (
	"encoding/binary"
	"net/netip"

	"verifharness/codec"
	"verifharness/sim"
)

// FlowSpec is what the property text needs to know about one endpoint's run.
type FlowSpec struct {
	Proto  string // icmp|udp|tcp|sack
	V6     bool
	Target netip.AddrPort // port 0 for icmp
	Strict bool           // strict quoted-source checking
	Paris  bool
	MinTTL int
	MaxTTL int
	ISN    uint32 // sack: the driver's initial sequence number (ack number of the SYN-ACK)
}

type MatchKind int

const (
	NoMatch       MatchKind = iota
	Genuine                 // all identifying fields match a probed TTL and the form is one the catalogue requires
	DontCare                // identifying fields match, but the form is damaged or not in the catalogue: accepting or ignoring are both fine
	PlainAck                // sack: acknowledgement on the probed connection without SACK blocks
	PlainAckMaybe           // the same, but the segment is damaged: ending the run or skipping it are both fine
)

// Match is the reference classification of one inbound packet for one endpoint.
type Match struct {
	Kind  MatchKind
	Probe int // index into the probe list
	TTL   int
	From  netip.Addr
	Dest  bool
	Form  string
}

func unmap(a netip.Addr) netip.Addr { return a.Unmap() }

// RefMatch decides, from the property text, whether pkt (as returned to the endpoint) answers one
// of probes (the probes whose WriteTo had been called when the packet was returned).
func RefMatch(fs *FlowSpec, probes []*sim.ProbeRec, pkt []byte) Match {
	m := refMatch(fs, probes, pkt)
	if m.Kind == NoMatch || len(pkt) < 8 || pkt[0]>>4 != 4 {
		return m
	}
	// IPv4 fragments: a non-first fragment carries no transport header at all; a first fragment
	// (MF set) is not a form any device produces for these replies
	fo := uint16(pkt[6])<<8 | uint16(pkt[7])
	if fo&0x1fff != 0 {
		return Match{}
	}
	if fo&0x2000 != 0 && (m.Kind == Genuine || m.Kind == PlainAck) {
		if m.Kind == PlainAck {
			m.Kind = PlainAckMaybe
		} else {
			m.Kind = DontCare
		}
	}
	return m
}

func refMatch(fs *FlowSpec, probes []*sim.ProbeRec, pkt []byte) Match {
	var good []*sim.ProbeRec
	for _, p := range probes {
		if p.IP != nil && p.L4 != nil {
			good = append(good, p)
		}
	}
	if len(good) == 0 {
		return Match{}
	}
	local := good[0].IP.Src
	localPort := good[0].L4.SrcPort
	ip, err := codec.DecodeIP(pkt, true)
	if err != nil || ip == nil {
		return Match{}
	}
	// link-layer padding (zero bytes after the datagram, frame no longer than Ethernet's minimum
	// payload) is not part of the datagram: such a frame is as clean as the bare datagram
	linkPadded := ip.TotalLen >= ip.HdrLen && ip.TotalLen < len(pkt) && len(pkt) <= 46
	for _, x := range pkt[min(ip.TotalLen, len(pkt)):] {
		linkPadded = linkPadded && x == 0
	}
	outerClean := (ip.LenOK || linkPadded) && ip.CsumOK && len(ip.Options)%4 == 0
	if (ip.Version == 6) != fs.V6 {
		return Match{}
	}
	l4 := codec.DecodeL4(ip)
	idx := func(p *sim.ProbeRec) int {
		for i, q := range probes {
			if q == p {
				return i
			}
		}
		return -1
	}
	icmpProto := uint8(codec.ProtoICMP)
	teType, unType, erType, echoType := uint8(codec.V4TimeExceeded), uint8(codec.V4Unreachable), uint8(codec.V4EchoReply), uint8(codec.V4Echo)
	if fs.V6 {
		icmpProto = codec.ProtoICMPv6
		teType, unType, erType, echoType = codec.V6TimeExceeded, codec.V6Unreachable, codec.V6EchoReply, codec.V6Echo
	}
	switch {
	case ip.Proto == icmpProto && l4.Complete:
		// direct echo reply
		if fs.Proto == "icmp" && l4.ICMPType == erType {
			if ip.Src != fs.Target.Addr() {
				return Match{}
			}
			for _, p := range good {
				if p.L4.ICMPID == l4.ICMPID && p.L4.ICMPSeq == l4.ICMPSeq {
					m := Match{Kind: Genuine, Probe: idx(p), TTL: p.TTL(), From: ip.Src, Dest: true, Form: "echo"}
					if !outerClean || !l4.CsumOK || l4.ICMPCode != 0 || ip.Dst != local {
						m.Kind = DontCare
					}
					return m
				}
			}
			return Match{}
		}
		isTE := l4.ICMPType == teType
		isUn := l4.ICMPType == unType
		if !isTE && !isUn {
			return Match{}
		}
		// quoted packet
		// The quoted header is read as a header of the flow's own family even if its version nibble
		// is damaged (lenient parsers do): identifying fields are compared first, the damage only
		// demotes the packet from "required" to "don't care".
		body := append([]byte(nil), l4.Body...)
		quoteVerOK := true
		if len(body) > 0 {
			want := byte(4)
			if fs.V6 {
				want = 6
			}
			quoteVerOK = body[0]>>4 == want
			body[0] = want<<4 | body[0]&0x0f
		}
		q, qerr := codec.DecodeIP(body, true)
		if qerr != nil || q == nil {
			return Match{}
		}
		ql := codec.DecodeL4(q)
		if len(q.Payload) < 8 {
			return Match{}
		}
		if q.Dst != fs.Target.Addr() {
			return Match{}
		}
		var hit *sim.ProbeRec
		formOK := true
		switch fs.Proto {
		case "icmp":
			if q.Src != local {
				return Match{}
			}
			// the quoted transport header is read as ICMP whatever the quoted protocol says
			qid := binary.BigEndian.Uint16(q.Payload[4:6])
			qseq := binary.BigEndian.Uint16(q.Payload[6:8])
			for _, p := range good {
				if p.L4.ICMPID == qid && p.L4.ICMPSeq == qseq {
					hit = p
					break
				}
			}
			// the probe is an echo request: a quoted message of another kind (timestamp, information,
			// address mask, redirect, ...) is not a quote of it, whatever its bytes 4..8 hold. An echo
			// *reply* in the quote shares the header layout and is left as don't-care.
			if q.Proto == icmpProto && q.Payload[0] != echoType && q.Payload[0] != erType {
				return Match{}
			}
			formOK = isTE && l4.ICMPCode == 0 && q.Proto == icmpProto && q.Payload[0] == echoType && q.Payload[1] == 0
		case "udp":
			sport := binary.BigEndian.Uint16(q.Payload[0:2])
			dport := binary.BigEndian.Uint16(q.Payload[2:4])
			if dport != fs.Target.Port() {
				return Match{}
			}
			if fs.Strict && (q.Src != local || sport != localPort) {
				return Match{}
			}
			for _, p := range good {
				if !fs.V6 && p.IP.ID == q.ID {
					hit = p
					break
				}
				if fs.V6 && p.IP.TotalLen == q.TotalLen {
					hit = p
					break
				}
			}
			formOK = (isUn || l4.ICMPCode == 0) && q.Proto == codec.ProtoUDP
		case "tcp", "sack":
			if fs.V6 {
				return Match{}
			}
			sport := binary.BigEndian.Uint16(q.Payload[0:2])
			dport := binary.BigEndian.Uint16(q.Payload[2:4])
			qseq := binary.BigEndian.Uint32(q.Payload[4:8])
			if dport != fs.Target.Port() {
				return Match{}
			}
			if fs.Strict && (q.Src != local || sport != localPort) {
				return Match{}
			}
			for _, p := range good {
				if fs.Proto == "tcp" && p.IP.ID == q.ID && p.L4.Seq == qseq {
					hit = p
					break
				}
				if fs.Proto == "sack" && p.L4.Seq == qseq {
					hit = p
					break
				}
			}
			formOK = isTE && l4.ICMPCode == 0 && q.Proto == codec.ProtoTCP
		}
		if hit == nil {
			return Match{}
		}
		_ = ql
		m := Match{Kind: Genuine, Probe: idx(hit), TTL: hit.TTL(), From: unmap(ip.Src), Form: "icmp-error"}
		switch fs.Proto {
		case "udp":
			m.Dest = ip.Src == fs.Target.Addr()
		case "sack":
			// only a time-exceeded sent by the target itself proves arrival for SACK probing
			m.Dest = ip.Src == fs.Target.Addr() && isTE
		}
		quoteClean := q.HdrLen >= 20 && len(q.Options)%4 == 0
		if !formOK || !outerClean || !l4.CsumOK || !quoteClean || !quoteVerOK {
			m.Kind = DontCare
		}
		return m
	case ip.Proto == codec.ProtoTCP && (fs.Proto == "tcp" || fs.Proto == "sack") && !fs.V6:
		if len(ip.Payload) < 14 {
			return Match{}
		}
		if ip.Src != fs.Target.Addr() || ip.Dst != local || l4.SrcPort != fs.Target.Port() || l4.DstPort != localPort {
			return Match{}
		}
		if !l4.Complete {
			// on the flow, but the header is cut short: nothing can be decided from it
			return Match{Kind: DontCare, Probe: len(probes) - 1, TTL: probes[len(probes)-1].TTL(), From: ip.Src, Dest: true, Form: "tcp-damaged"}
		}
		fl := l4.Flags
		clean := outerClean && l4.CsumOK
		if fs.Proto == "tcp" {
			last := good[len(good)-1]
			syn, ack, rst := fl&codec.FlagSYN != 0, fl&codec.FlagACK != 0, fl&codec.FlagRST != 0
			if !((syn && ack) || rst) {
				return Match{}
			}
			m := Match{Kind: Genuine, Probe: idx(last), TTL: last.TTL(), From: ip.Src, Dest: true, Form: "tcp-direct"}
			if ack && l4.Ack != last.L4.Seq+1 {
				// the acknowledgement number is the reply's identifier. If it answers an earlier probe of
				// this run (Paris mode: per-probe sequence numbers; a late reply) the reply may be dropped
				// or credited to that probe, never to the latest one; if it answers no probe of this run
				// it belongs to another incarnation of the flow and must not create a hop
				var owner *sim.ProbeRec
				for _, p := range good {
					if l4.Ack == p.L4.Seq+1 {
						owner = p
					}
				}
				if owner == nil {
					return Match{}
				}
				m.Kind, m.Probe, m.TTL = DontCare, idx(owner), owner.TTL()
			}
			if (syn && rst) || fl&codec.FlagFIN != 0 || !clean {
				m.Kind = DontCare
			}
			return m
		}
		// sack
		if fl&(codec.FlagSYN|codec.FlagFIN|codec.FlagRST) != 0 {
			return Match{}
		}
		minRel := uint32(0xffffffff)
		found := false
		for _, o := range codec.ParseTCPOptions(l4.TCPOptions) {
			if o.Kind != 5 {
				continue
			}
			if len(o.Data)%8 != 0 {
				clean = false // stray bytes after the last block: accepting or ignoring are both fine
			}
			for d := o.Data; len(d) >= 8; d = d[8:] {
				found = true
				rel := binary.BigEndian.Uint32(d[:4]) - fs.ISN
				if rel < minRel {
					minRel = rel
				}
			}
		}
		if !found {
			if !clean || !optionsWellFormed(l4.TCPOptions) {
				return Match{Kind: PlainAckMaybe, From: ip.Src, Form: "plainack-damaged"}
			}
			return Match{Kind: PlainAck, From: ip.Src, Form: "plainack"}
		}
		for _, p := range good {
			if p.L4.Seq-fs.ISN == minRel {
				m := Match{Kind: Genuine, Probe: idx(p), TTL: p.TTL(), From: ip.Src, Dest: true, Form: "sack"}
				if !clean || fl&codec.FlagACK == 0 {
					m.Kind = DontCare
				}
				return m
			}
		}
		return Match{}
	}
	return Match{}
}

func optionsWellFormed(b []byte) bool {
	for len(b) > 0 {
		switch b[0] {
		case 0:
			return true
		case 1:
			b = b[1:]
			continue
		}
		if len(b) < 2 || int(b[1]) < 2 || int(b[1]) > len(b) {
			return false
		}
		b = b[b[1]:]
	}
	return true
}

package oracle

import (
	"fmt"
	"net/netip"
	"time"

	"verifharness/sim"

	"github.com/DataDog/datadog-traceroute/result"
)

// RefHop is the reference expectation for one TTL.
type RefHop struct {
	TTL       int
	Addr      netip.Addr
	Dest      bool
	Pkt       int
	Probe     int
	ArriveAt  time.Duration
	ReadAt    time.Duration
	PollObs   time.Duration // poll interval observed on the read that returned the packet
	Ambiguous bool
}

// Accepted is one genuine packet in the order the endpoint read it.
type Accepted struct {
	Pkt    int
	M      Match
	ReadAt time.Duration
	ReadN  int
}

// Fold is the reference fold over everything an endpoint read.
type Fold struct {
	Spec      *FlowSpec
	Hops      map[int]*RefHop
	Accepted  []Accepted
	DontCares []Accepted
	PlainAck  bool
	// PlainAckMaybe: a damaged plain ACK on the probed connection was read; the run may end early
	// with NotSupportedError or carry on.
	PlainAckMaybe bool
	Ambiguous     int
	// LowestDest is the lowest TTL holding a destination reply (0: none).
	LowestDest int
}

// FoldEndpoint applies the two merge rules of the parallel engine (first accepted reply wins; a
// destination reply replaces a non-destination one) to the packets the endpoint actually read,
// each classified by the reference matcher against the probes called by then.
func FoldEndpoint(fs *FlowSpec, w *sim.World, ep *sim.Endpoint) *Fold {
	f := &Fold{Spec: fs, Hops: map[int]*RefHop{}}
	for _, rd := range ep.Reads {
		if rd.Pkt < 0 || rd.Err != "" {
			continue
		}
		p := w.Pkts[rd.Pkt]
		b := p.Bytes
		if rd.NBytes < len(b) {
			b = b[:rd.NBytes]
		}
		nprobes := rd.ProbesCalled
		if nprobes > len(ep.Probes) {
			nprobes = len(ep.Probes)
		}
		m := RefMatch(fs, ep.Probes[:nprobes], b)
		switch m.Kind {
		case NoMatch:
			continue
		case PlainAck:
			f.PlainAck = true
			return f
		case PlainAckMaybe:
			f.PlainAckMaybe = true
			continue
		}
		if m.TTL < fs.MinTTL || m.TTL > fs.MaxTTL {
			continue
		}
		acc := Accepted{Pkt: rd.Pkt, M: m, ReadAt: rd.RetAt, ReadN: rd.N}
		prev := f.Hops[m.TTL]
		wouldChange := prev == nil || (!prev.Dest && m.Dest)
		if m.Kind == DontCare {
			f.DontCares = append(f.DontCares, acc)
			if wouldChange {
				if prev == nil {
					prev = &RefHop{TTL: m.TTL, Pkt: -1}
					f.Hops[m.TTL] = prev
				}
				if !prev.Ambiguous {
					prev.Ambiguous = true
					f.Ambiguous++
				}
			}
			continue
		}
		f.Accepted = append(f.Accepted, acc)
		if prev != nil && prev.Ambiguous {
			continue
		}
		if wouldChange {
			poll := time.Duration(0)
			if rd.Deadline >= 0 {
				poll = rd.Deadline - rd.DeadlineSetAt
			}
			f.Hops[m.TTL] = &RefHop{TTL: m.TTL, Addr: m.From, Dest: m.Dest, Pkt: rd.Pkt, Probe: m.Probe, ArriveAt: p.At, ReadAt: rd.RetAt, PollObs: poll}
		}
	}
	for t := fs.MinTTL; t <= fs.MaxTTL; t++ {
		if h := f.Hops[t]; h != nil && h.Dest && !h.Ambiguous {
			f.LowestDest = t
			break
		}
	}
	return f
}

// ExpHop is one entry of the expected path.
type ExpHop struct {
	TTL  int
	Addr netip.Addr // invalid: unanswered
	Dest bool
	Ref  *RefHop
}

// Expected is the path the property text prescribes for this fold.
func (f *Fold) Expected() []ExpHop {
	last := f.Spec.MaxTTL
	if f.LowestDest > 0 {
		last = f.LowestDest
	}
	var out []ExpHop
	for t := f.Spec.MinTTL; t <= last; t++ {
		e := ExpHop{TTL: t}
		if h := f.Hops[t]; h != nil && !h.Ambiguous {
			e.Addr, e.Dest, e.Ref = h.Addr, h.Dest, h
		}
		out = append(out, e)
	}
	return out
}

// HopAddr converts a result hop address to netip (unmapped); ok=false for an empty hop.
func HopAddr(h *result.TracerouteHop) (netip.Addr, bool) {
	if len(h.IPAddress) == 0 {
		return netip.Addr{}, false
	}
	a, ok := netip.AddrFromSlice(h.IPAddress)
	if !ok {
		return netip.Addr{}, false
	}
	return a.Unmap(), true
}

// Diff describes the first difference between the expected path and the reported hops ("" if
// equal). RTTs are not compared here.
func (f *Fold) Diff(hops []*result.TracerouteHop) string {
	exp := f.Expected()
	if len(exp) != len(hops) {
		return fmt.Sprintf("length: expected %d hops (ttl %d..%d), got %d", len(exp), f.Spec.MinTTL, f.Spec.MinTTL+len(exp)-1, len(hops))
	}
	for i, e := range exp {
		h := hops[i]
		if h == nil {
			return fmt.Sprintf("hop %d is nil", i)
		}
		if h.TTL != e.TTL {
			return fmt.Sprintf("ttl: position %d expected ttl %d, got %d", i, e.TTL, h.TTL)
		}
		a, ok := HopAddr(h)
		if ok != e.Addr.IsValid() {
			if ok {
				return fmt.Sprintf("ttl %d: expected unanswered, got %s", e.TTL, a)
			}
			return fmt.Sprintf("ttl %d: expected %s, got unanswered", e.TTL, e.Addr)
		}
		if ok && a != e.Addr.Unmap() {
			return fmt.Sprintf("ttl %d: expected %s, got %s", e.TTL, e.Addr, a)
		}
		if h.IsDest != e.Dest {
			return fmt.Sprintf("ttl %d: expected dest=%v, got dest=%v", e.TTL, e.Dest, h.IsDest)
		}
	}
	return ""
}

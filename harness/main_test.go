package harness

import (
	"os"
	"testing"
)

func TestMain(m *testing.M) {
	if os.Getenv("VERIF_ROLE") == "supervisor" {
		os.Exit(supervisorMain())
	}
	os.Exit(m.Run())
}

// TestWorker is the body of a worker process (see supervisor.go); it is skipped when the test
// binary is run by hand.
func TestWorker(t *testing.T) {
	if os.Getenv("VERIF_ROLE") != "worker" {
		t.Skip("worker role only")
	}
	workerMain(t)
}

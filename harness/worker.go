package harness

import (
	"crypto/sha256"
	"encoding/hex"
	"encoding/json"
	"fmt"
	"hash/fnv"
	"math/rand/v2"
	"os"
	"sort"
	"sync/atomic"
	"testing"
	"time"

	"verifharness/props"
	"verifharness/sim"
)

// WorkerSpec is handed to a worker process through VERIF_SPEC.
type WorkerSpec struct {
	Prop     string `json:"prop"`
	Tier     string `json:"tier"`
	Seed     uint64 `json:"seed"`
	From     int    `json:"from"`
	To       int    `json:"to"`
	Out      string `json:"out"`
	Replay   string `json:"replay,omitempty"`   // replay file to execute instead of generating
	Single   bool   `json:"single,omitempty"`   // crash triage: run exactly index From, report nothing else
	ScenFile string `json:"scenFile,omitempty"` // crash triage: run this scenario file
	ReplayDir string `json:"replayDir"`
	NoShrink bool   `json:"noShrink,omitempty"`
	DetEvery int    `json:"detEvery,omitempty"`
}

// FoundViolation is a violation with its (minimised) replay file.
type FoundViolation struct {
	props.Violation
	Index   int    `json:"index"`
	Replay  string `json:"replay"`
	LogHash string `json:"logHash"`
}

// ChunkResult is what a worker reports for its range.
type ChunkResult struct {
	Runs          int               `json:"runs"`
	VirtualNs     int64             `json:"virtualNs"`
	RealNs        int64             `json:"realNs"`
	Stats         map[string]int    `json:"stats"`
	Probes        map[string]int    `json:"probes"`
	Inconclusive  map[string]int    `json:"inconclusive"`
	Shapes        []uint64          `json:"shapes"`     // hashes of distinct non-trivial shapes
	Scheds        []uint64          `json:"scheds"`     // hashes of distinct interleavings
	NonTrivial    int               `json:"nonTrivial"`
	Choices       int               `json:"choices"`
	Samples       []json.RawMessage `json:"samples"`
	Violations    []FoundViolation  `json:"violations"`
	DetRuns       int               `json:"detRuns"`
	DetMismatch   []int             `json:"detMismatch"`
	Reproduced    bool              `json:"reproduced,omitempty"`
	ReplayRule    string            `json:"replayRule,omitempty"`
	ReplayHash    string            `json:"replayHash,omitempty"`
	HarnessErrors []string          `json:"harnessErrors,omitempty"`
}

func h64(s string) uint64 {
	h := fnv.New64a()
	h.Write([]byte(s))
	return h.Sum64()
}

func rngFor(prop string, seed uint64, i int) *rand.Rand {
	return rand.New(rand.NewPCG(seed^h64(prop), uint64(i)*2654435761+1))
}

// GenScenario is the pure function (property, tier, seed, index) -> scenario.
func GenScenario(p props.Property, tier string, seed uint64, i int) *sim.Scenario {
	props.CurrentSeed = seed
	sc := p.Gen(rngFor(p.ID(), seed, i), tier, i)
	sc.Property = p.ID()
	sc.Seed = seed
	sc.Index = i
	return sc
}

var runStarted atomic.Int64 // unix nanos (real clock) of the current run's start; 0 when idle

func startWatchdog() {
	go func() {
		for {
			time.Sleep(500 * time.Millisecond)
			s := runStarted.Load()
			if s != 0 && time.Now().UnixNano()-s > int64(30*time.Second) {
				fmt.Fprintln(os.Stderr, "WATCHDOG: one simulated run exceeded 30 s of real time")
				os.Exit(3)
			}
		}
	}()
}

func execute(t *testing.T, sc *sim.Scenario, keep bool) *sim.Outcome {
	runStarted.Store(time.Now().UnixNano())
	defer runStarted.Store(0)
	return sim.Execute(t, sc, keep)
}

// ReplayFile is the on-disk form of a violation.
type ReplayFile struct {
	Property string            `json:"property"`
	Rule     string            `json:"rule"`
	Detail   string            `json:"detail"`
	Facts    map[string]string `json:"facts,omitempty"`
	LogHash  string            `json:"logHash"`
	Shrunk   bool              `json:"shrunk"`
	ShrinkSteps int            `json:"shrinkSteps"`
	Scenario *sim.Scenario     `json:"scenario"`
	EventLog []string          `json:"eventLog,omitempty"`
}

func workerMain(t *testing.T) {
	var spec WorkerSpec
	if err := json.Unmarshal([]byte(os.Getenv("VERIF_SPEC")), &spec); err != nil {
		fmt.Fprintln(os.Stderr, "bad VERIF_SPEC:", err)
		os.Exit(2)
	}
	startWatchdog()
	p := props.Get(spec.Prop)
	if p == nil {
		fmt.Fprintln(os.Stderr, "unknown property", spec.Prop)
		os.Exit(2)
	}
	res := &ChunkResult{Stats: map[string]int{}, Probes: map[string]int{}, Inconclusive: map[string]int{}}
	defer func() {
		b, _ := json.Marshal(res)
		if err := os.WriteFile(spec.Out, b, 0o644); err != nil {
			fmt.Fprintln(os.Stderr, "cannot write result:", err)
			os.Exit(2)
		}
	}()
	if spec.Replay != "" || spec.ScenFile != "" {
		path := spec.Replay
		if path == "" {
			path = spec.ScenFile
		}
		b, err := os.ReadFile(path)
		if err != nil {
			fmt.Fprintln(os.Stderr, err)
			os.Exit(2)
		}
		var rf ReplayFile
		if err := json.Unmarshal(b, &rf); err != nil || rf.Scenario == nil {
			fmt.Fprintln(os.Stderr, "bad replay file:", err)
			os.Exit(2)
		}
		fmt.Fprintf(os.Stderr, "@%d\n", rf.Scenario.Index)
		out := execute(t, rf.Scenario, true)
		ri := &props.RunInfo{}
		vs := p.Check(out, ri)
		res.Runs = 1
		res.ReplayHash = out.LogHash
		for _, v := range vs {
			if v.Rule == rf.Rule {
				res.Reproduced = true
				res.ReplayRule = v.Rule
				res.Violations = append(res.Violations, FoundViolation{Violation: v, Index: rf.Scenario.Index, Replay: path, LogHash: out.LogHash})
				break
			}
		}
		if !res.Reproduced && len(vs) > 0 {
			res.ReplayRule = vs[0].Rule
		}
		return
	}
	shapes := map[uint64]bool{}
	scheds := map[uint64]bool{}
	batch := sha256.New()
	detEvery := spec.DetEvery
	if detEvery == 0 {
		detEvery = 97
	}
	for i := spec.From; i < spec.To; i++ {
		fmt.Fprintf(os.Stderr, "@%d\n", i)
		sc := GenScenario(p, spec.Tier, spec.Seed, i)
		out := execute(t, sc, i%detEvery == 0)
		ri := &props.RunInfo{}
		vs := p.Check(out, ri)
		res.Runs++
		batch.Write([]byte(out.LogHash))
		res.VirtualNs += int64(out.Virtual)
		res.RealNs += out.RealNs
		if out.W != nil {
			for k, n := range out.W.Stats {
				res.Stats[k] += n
			}
			res.Choices += out.W.Choices
		}
		for k, n := range ri.Probes {
			res.Probes[k] += n
		}
		if ri.Inconclusive != "" {
			res.Inconclusive[ri.Inconclusive]++
		}
		scheds[out.SchedHash] = true
		if ri.NonTrivial {
			res.NonTrivial++
			shapes[h64(ri.Shape)] = true
		}
		if len(res.Samples) < 2 && ri.NonTrivial {
			b, _ := json.Marshal(sc)
			res.Samples = append(res.Samples, b)
		}
		if i%detEvery == 0 {
			out2 := execute(t, GenScenario(p, spec.Tier, spec.Seed, i), true)
			res.DetRuns++
			if out2.LogHash != out.LogHash {
				res.DetMismatch = append(res.DetMismatch, i)
				a, b := out.W.Log.Lines, out2.W.Log.Lines
				for k := 0; k < len(a) || k < len(b); k++ {
					la, lb := "<end>", "<end>"
					if k < len(a) {
						la = a[k]
					}
					if k < len(b) {
						lb = b[k]
					}
					if la != lb {
						ctx := ""
						for j := max(0, k-6); j < k; j++ {
							ctx += " | " + a[j]
						}
						res.HarnessErrors = append(res.HarnessErrors, fmt.Sprintf("nondeterminism at index %d line %d: %q vs %q; before:%s", i, k, la, lb, ctx))
						break
					}
				}
			}
		}
		if spec.Single {
			for _, v := range vs {
				res.Violations = append(res.Violations, FoundViolation{Violation: v, Index: i, LogHash: out.LogHash})
			}
			continue
		}
		if len(vs) > 0 && len(res.Violations) < 40 {
			// one replay per distinct rule+facts in this chunk
			seen := map[string]bool{}
			for _, fv := range res.Violations {
				seen[vkey(fv.Violation)] = true
			}
			for _, v := range vs {
				if seen[vkey(v)] {
					continue
				}
				seen[vkey(v)] = true
				fv := reportViolation(t, p, sc, v, spec)
				res.Violations = append(res.Violations, fv)
			}
		}
	}
	res.ReplayHash = hex.EncodeToString(batch.Sum(nil))
	for k := range shapes {
		res.Shapes = append(res.Shapes, k)
	}
	for k := range scheds {
		res.Scheds = append(res.Scheds, k)
	}
	sort.Slice(res.Shapes, func(i, j int) bool { return res.Shapes[i] < res.Shapes[j] })
	sort.Slice(res.Scheds, func(i, j int) bool { return res.Scheds[i] < res.Scheds[j] })
}

func vkey(v props.Violation) string {
	b, _ := json.Marshal(v.Facts)
	return v.Rule + string(b)
}

// reportViolation minimises the scenario (same rule must keep failing) and writes the replay file.
func reportViolation(t *testing.T, p props.Property, sc *sim.Scenario, v props.Violation, spec WorkerSpec) FoundViolation {
	best := sc.Clone()
	bestV := v
	steps := 0
	if !spec.NoShrink {
		best, bestV, steps = shrink(t, p, sc, v, 300)
	}
	out := execute(t, best, true)
	rf := ReplayFile{Property: p.ID(), Rule: bestV.Rule, Detail: bestV.Detail, Facts: bestV.Facts, LogHash: out.LogHash, Shrunk: !spec.NoShrink, ShrinkSteps: steps, Scenario: best}
	if out.W != nil {
		lines := out.W.Log.Lines
		if len(lines) > 400 {
			lines = lines[:400]
		}
		rf.EventLog = lines
	}
	os.MkdirAll(spec.ReplayDir, 0o755)
	path := fmt.Sprintf("%s/%s-%d-%d-%x.json", spec.ReplayDir, p.ID(), sc.Seed, sc.Index, h64(vkey(bestV))&0xffff)
	b, _ := json.MarshalIndent(rf, "", " ")
	os.WriteFile(path, b, 0o644)
	return FoundViolation{Violation: bestV, Index: sc.Index, Replay: path, LogHash: out.LogHash}
}

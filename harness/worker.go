package harness

import (
	"crypto/sha256"
	"encoding/hex"
	"encoding/json"
	"fmt"
	"hash/fnv"
	"math/rand/v2"
	"os"
	"path/filepath"
	"runtime"
	"sort"
	"strings"
	"sync/atomic"
	"testing"
	"time"

	"verifharness/props"
	"verifharness/sim"
)

// WorkerSpec is handed to a worker process through VERIF_SPEC.
type WorkerSpec struct {
	Prop      string `json:"prop"`
	Tier      string `json:"tier"`
	Seed      uint64 `json:"seed"`
	From      int    `json:"from"`
	To        int    `json:"to"`
	Out       string `json:"out"`
	Replay    string `json:"replay,omitempty"`   // replay file to execute instead of generating
	Single    bool   `json:"single,omitempty"`   // crash triage: run exactly index From, report nothing else
	ScenFile  string `json:"scenFile,omitempty"` // crash triage: run this scenario file
	ReplayDir string `json:"replayDir"`
	NoShrink  bool   `json:"noShrink,omitempty"`
	DetEvery  int    `json:"detEvery,omitempty"`
}

// FoundViolation is a violation with its (minimised) replay file.
type FoundViolation struct {
	props.Violation
	Index   int    `json:"index"`
	Replay  string `json:"replay"`
	LogHash string `json:"logHash"`
}

// ChunkResult is what a worker reports for its range.
type ChunkResult struct {
	Runs          int               `json:"runs"`
	VirtualS      float64           `json:"virtualS"`
	RealNs        int64             `json:"realNs"`
	Stats         map[string]int    `json:"stats"`
	Probes        map[string]int    `json:"probes"`
	Inconclusive  map[string]int    `json:"inconclusive"`
	Shapes        []uint64          `json:"shapes"` // hashes of distinct non-trivial shapes
	Scheds        []uint64          `json:"scheds"` // hashes of distinct interleavings
	NonTrivial    int               `json:"nonTrivial"`
	Choices       int               `json:"choices"`
	Samples       []json.RawMessage `json:"samples"`
	Violations    []FoundViolation  `json:"violations"`
	DetRuns       int               `json:"detRuns"`
	DetMismatch   []int             `json:"detMismatch"`
	Reproduced    bool              `json:"reproduced,omitempty"`
	ReplayRule    string            `json:"replayRule,omitempty"`
	ReplayHash    string            `json:"replayHash,omitempty"`
	RunHashes     []string          `json:"runHashes,omitempty"`
	HarnessErrors []string          `json:"harnessErrors,omitempty"`
	Notes         []string          `json:"notes,omitempty"`
}

func h64(s string) uint64 {
	h := fnv.New64a()
	h.Write([]byte(s))
	return h.Sum64()
}

func rngFor(prop string, seed uint64, i int) *rand.Rand {
	return rand.New(rand.NewPCG(seed^h64(prop), uint64(i)*2654435761+1))
}

// GenScenario is the pure function (property, tier, seed, index) -> scenario.
func GenScenario(p props.Property, tier string, seed uint64, i int) *sim.Scenario {
	props.CurrentSeed = seed
	sc := p.Gen(rngFor(p.ID(), seed, i), tier, i)
	sc.Property = p.ID()
	sc.Seed = seed
	sc.Index = i
	return sc
}

var runStarted atomic.Int64 // unix nanos (real clock) of the current run's start; 0 when idle

func startWatchdog() {
	go func() {
		var suspect string // goroutines found waiting for a lock at the previous look
		for {
			time.Sleep(500 * time.Millisecond)
			s := runStarted.Load()
			if s == 0 {
				suspect = ""
				continue
			}
			age := time.Now().UnixNano() - s
			if age > int64(6*time.Second) {
				// A run that makes no progress in real time: virtual time only moves when every goroutine
				// of the bubble is durably blocked, and a goroutine waiting for a sync.Mutex is not. If
				// code under test holds a lock across a Source/Sink operation (which the simulator may
				// make arbitrarily slow) and another goroutine of the run needs that lock, the run hangs
				// exactly like this. Two looks one second apart must show the same waiters.
				if w := lockWaiters(); w != "" && w == suspect {
					fmt.Fprintf(os.Stderr, "LOCKHANG %s\n", w)
					os.Exit(4)
				} else {
					suspect = w
					time.Sleep(time.Second)
				}
			}
			if age > int64(30*time.Second) {
				fmt.Fprintln(os.Stderr, "WATCHDOG: one simulated run exceeded 30 s of real time")
				os.Exit(3)
			}
		}
	}()
}

// lockWaiters lists the goroutines of a synctest bubble that wait for a sync.Mutex / RWMutex inside
// the code under test, as "function<-caller;..." (empty: none).
func lockWaiters() string {
	buf := make([]byte, 4<<20)
	buf = buf[:runtime.Stack(buf, true)]
	var out []string
	for _, g := range strings.Split(string(buf), "\n\n") {
		head, _, _ := strings.Cut(g, "\n")
		if !strings.Contains(head, "synctest bubble") || !(strings.Contains(head, "sync.Mutex.Lock") || strings.Contains(head, "sync.RWMutex.")) {
			continue
		}
		var fr []string
		for _, l := range strings.Split(g, "\n") {
			if strings.HasPrefix(l, "github.com/DataDog/datadog-traceroute/") {
				f := strings.TrimPrefix(l, "github.com/DataDog/datadog-traceroute/")
				if i := strings.LastIndexByte(f, '('); i > 0 {
					f = f[:i]
				}
				fr = append(fr, f)
				if len(fr) == 3 {
					break
				}
			}
		}
		if len(fr) > 0 {
			out = append(out, strings.Join(fr, "<-"))
		}
	}
	sort.Strings(out)
	return strings.Join(out, ";")
}

func execute(t *testing.T, sc *sim.Scenario, keep bool) *sim.Outcome {
	runStarted.Store(time.Now().UnixNano())
	defer runStarted.Store(0)
	if sc.Mode == "free" {
		// its own subtest: the testing package fails (and ends) a test during which the race
		// detector fired; the worker must carry on with the next run
		var out *sim.Outcome
		if sc.Property != "C14" {
			// free-running families of other properties need goroutines to really overlap
			defer runtime.GOMAXPROCS(runtime.GOMAXPROCS(8))
		}
		t.Run("free", func(t *testing.T) { sim.ExecuteFree(t, sc, &out) })
		if out == nil || out.W == nil {
			out = &sim.Outcome{Sc: sc, W: sim.NewWorld(sc, false), Deadlock: "free-running run ended abnormally"}
		}
		for _, c := range out.W.Calls {
			if !c.Finished && out.Deadlock == "" {
				out.Deadlock = "free-running run ended before every call returned"
			}
		}
		out.Races = collectRaces()
		return out
	}
	return sim.Execute(t, sc, keep)
}

var raceLogOff int64

// collectRaces reads what the race detector appended to its log file since the last call.
func collectRaces() []sim.RaceReport {
	base := os.Getenv("VERIF_RACELOG")
	if base == "" {
		return nil
	}
	path := fmt.Sprintf("%s.%d", base, os.Getpid())
	b, err := os.ReadFile(path)
	if err != nil || int64(len(b)) <= raceLogOff {
		return nil
	}
	text := string(b[raceLogOff:])
	raceLogOff = int64(len(b))
	return parseRaces(text)
}

const repoPrefix = "github.com/DataDog/datadog-traceroute/"

func parseRaces(text string) []sim.RaceReport {
	var out []sim.RaceReport
	for _, block := range strings.Split(text, "==================") {
		if !strings.Contains(block, "WARNING: DATA RACE") {
			continue
		}
		var sites []string
		inAccess := false
		found := false
		for _, line := range strings.Split(block, "\n") {
			l := strings.TrimSpace(line)
			switch {
			case strings.Contains(l, " by goroutine ") || strings.Contains(l, " by main goroutine"):
				if strings.HasPrefix(l, "Read at") || strings.HasPrefix(l, "Write at") || strings.HasPrefix(l, "Previous ") || strings.HasPrefix(l, "Atomic ") {
					inAccess, found = true, false
					sites = append(sites, "")
				}
			case strings.HasPrefix(l, "Goroutine "):
				inAccess = false
			case inAccess && !found && strings.HasPrefix(l, repoPrefix) && !strings.Contains(l, "verif"):
				fn := strings.TrimPrefix(l, repoPrefix)
				if k := strings.LastIndex(fn, "("); k > 0 && strings.HasSuffix(fn, ")") {
					fn = fn[:k]
				}
				sites[len(sites)-1] = fn
				found = true
			}
		}
		r := sim.RaceReport{Text: block}
		if len(sites) > 0 {
			r.SiteA = sites[0]
		}
		if len(sites) > 1 {
			r.SiteB = sites[1]
		}
		out = append(out, r)
	}
	return out
}

// ReplayFile is the on-disk form of a violation.
type ReplayFile struct {
	Property    string            `json:"property"`
	Rule        string            `json:"rule"`
	Detail      string            `json:"detail"`
	Facts       map[string]string `json:"facts,omitempty"`
	LogHash     string            `json:"logHash"`
	Shrunk      bool              `json:"shrunk"`
	ShrinkSteps int               `json:"shrinkSteps"`
	Scenario    *sim.Scenario     `json:"scenario"`
	EventLog    []string          `json:"eventLog,omitempty"`
}

func workerMain(t *testing.T) {
	var spec WorkerSpec
	if err := json.Unmarshal([]byte(os.Getenv("VERIF_SPEC")), &spec); err != nil {
		fmt.Fprintln(os.Stderr, "bad VERIF_SPEC:", err)
		os.Exit(2)
	}
	startWatchdog()
	p := props.Get(spec.Prop)
	if p == nil {
		fmt.Fprintln(os.Stderr, "unknown property", spec.Prop)
		os.Exit(2)
	}
	res := &ChunkResult{Stats: map[string]int{}, Probes: map[string]int{}, Inconclusive: map[string]int{}}
	defer func() {
		b, _ := json.Marshal(res)
		if err := os.WriteFile(spec.Out, b, 0o644); err != nil {
			fmt.Fprintln(os.Stderr, "cannot write result:", err)
			os.Exit(2)
		}
	}()
	if spec.Replay != "" || spec.ScenFile != "" {
		path := spec.Replay
		if path == "" {
			path = spec.ScenFile
		}
		b, err := os.ReadFile(path)
		if err != nil {
			fmt.Fprintln(os.Stderr, err)
			os.Exit(2)
		}
		var rf ReplayFile
		if err := json.Unmarshal(b, &rf); err != nil || rf.Scenario == nil {
			fmt.Fprintln(os.Stderr, "bad replay file:", err)
			os.Exit(2)
		}
		fmt.Fprintf(os.Stderr, "@%d\n", rf.Scenario.Index)
		out := execute(t, rf.Scenario, true)
		ri := &props.RunInfo{}
		vs := p.Check(out, ri)
		res.Runs = 1
		res.ReplayHash = out.LogHash
		for _, v := range vs {
			if v.Rule == rf.Rule {
				res.Reproduced = true
				res.ReplayRule = v.Rule
				res.Violations = append(res.Violations, FoundViolation{Violation: v, Index: rf.Scenario.Index, Replay: path, LogHash: out.LogHash})
				break
			}
		}
		if !res.Reproduced && len(vs) > 0 {
			res.ReplayRule = vs[0].Rule
		}
		return
	}
	shapes := map[uint64]bool{}
	scheds := map[uint64]bool{}
	batch := sha256.New()
	detEvery := spec.DetEvery
	if detEvery == 0 {
		detEvery = 97
	}
	for i := spec.From; i < spec.To; i++ {
		fmt.Fprintf(os.Stderr, "@%d\n", i)
		sc := GenScenario(p, spec.Tier, spec.Seed, i)
		dump := os.Getenv("VERIF_DUMPLOGS")
		out := execute(t, sc, true) // the event log of every run is kept until the run is judged (diagnosis of a violation that does not reproduce)
		// transient real-time artefacts of the one kernel-backed step (see sim.RealTimeDialTimeout): the
		// scenario is executed again; what persists over the re-executions is the scenario's own behaviour
		if sc.Mode != "free" && out.W != nil && out.W.PortReused {
			for again := 0; again < 4 && out.W != nil && out.W.PortReused; again++ {
				res.Stats["kernel-port-reuse.re-executed"]++
				out = execute(t, GenScenario(p, spec.Tier, spec.Seed, i), true)
			}
			if out.W != nil && out.W.PortReused {
				res.Runs++
				res.Inconclusive["kernel-port-reuse"]++
				continue
			}
		}
		if sc.Mode != "free" && (out.RealTimeDialTimeout() || (out.LeftoverConns() && callFailed(out))) {
			first := out.LogHash
			for again := 0; again < 3; again++ {
				res.Stats["real-time-suspect.re-executed"]++
				out = execute(t, GenScenario(p, spec.Tier, spec.Seed, i), true)
				if !out.RealTimeDialTimeout() && out.LogHash != first {
					break
				}
			}
		}
		if out.RealTimeDialTimeout() {
			res.Runs++
			res.Inconclusive["real-time-dial-timeout"]++
			continue
		}
		if dump != "" && out.W != nil {
			os.MkdirAll(dump, 0o755)
			os.WriteFile(fmt.Sprintf("%s/%d-%d.log", dump, os.Getpid(), i), []byte(strings.Join(out.W.Log.Lines, "\n")+"\n"), 0o644)
		}
		ri := &props.RunInfo{}
		vs := p.Check(out, ri)
		res.Runs++
		batch.Write([]byte(out.LogHash))
		if os.Getenv("VERIF_HASHMODE") != "" {
			res.RunHashes = append(res.RunHashes, out.LogHash[:min(12, len(out.LogHash))])
		}
		res.VirtualS += out.Virtual.Seconds()
		res.RealNs += out.RealNs
		if out.W != nil {
			for k, n := range out.W.Stats {
				res.Stats[k] += n
			}
			res.Choices += out.W.Choices
		}
		for k, n := range ri.Probes {
			res.Probes[k] += n
		}
		if ri.Inconclusive != "" {
			res.Inconclusive[ri.Inconclusive]++
		}
		scheds[out.SchedHash] = true
		if ri.NonTrivial {
			res.NonTrivial++
			shapes[h64(ri.Shape)] = true
		}
		if len(res.Samples) < 2 && ri.NonTrivial {
			b, _ := json.Marshal(sc)
			res.Samples = append(res.Samples, b)
		}
		if i%detEvery == 0 {
			out2 := execute(t, GenScenario(p, spec.Tier, spec.Seed, i), true)
			for again := 0; again < 4 && out2.W != nil && out2.W.PortReused; again++ {
				out2 = execute(t, GenScenario(p, spec.Tier, spec.Seed, i), true)
			}
			res.DetRuns++
			if out2.LogHash != out.LogHash && !(out2.W != nil && out2.W.PortReused) {
				res.DetMismatch = append(res.DetMismatch, i)
				a, b := out.W.Log.Lines, out2.W.Log.Lines
				for k := 0; k < len(a) || k < len(b); k++ {
					la, lb := "<end>", "<end>"
					if k < len(a) {
						la = a[k]
					}
					if k < len(b) {
						lb = b[k]
					}
					if la != lb {
						ctx := ""
						for j := max(0, k-6); j < k; j++ {
							ctx += " | " + a[j]
						}
						res.HarnessErrors = append(res.HarnessErrors, fmt.Sprintf("nondeterminism at index %d line %d: %q vs %q; before:%s", i, k, la, lb, ctx))
						break
					}
				}
			}
		}
		if spec.Single {
			for _, v := range vs {
				res.Violations = append(res.Violations, FoundViolation{Violation: v, Index: i, LogHash: out.LogHash})
			}
			continue
		}
		if len(vs) > 0 {
			// how often, not only whether: a change caught by a single run out of a batch is a weak catch
			res.Stats["violating-runs"]++
		}
		if len(vs) > 0 && len(res.Violations) < 40 {
			// one replay per distinct rule+facts in this chunk
			seen := map[string]bool{}
			for _, fv := range res.Violations {
				seen[vkey(fv.Violation)] = true
			}
			for _, v := range vs {
				if seen[vkey(v)] {
					continue
				}
				seen[vkey(v)] = true
				// one seed is one execution: a violation that the same scenario does not show again is not
				// a finding about the code under test that anybody could replay, it is trouble in the
				// harness (something outside the simulator's control decided the run). Both event logs
				// are kept for diagnosis.
				if sc.Mode != "free" && !reproduces(t, p, sc, v, 3) {
					res.Stats["violation-not-reproducible"]++
					dumpNonRepro(t, spec, sc, v, out)
					res.Notes = append(res.Notes, fmt.Sprintf("index %d: rule %s fired once and not again in 3 re-executions of the same scenario (event logs kept in .work/nonrepro-%s-%d.json): %s", i, v.Rule, p.ID(), i, v.Detail))
					continue
				}
				fv := reportViolation(t, p, sc, v, spec)
				res.Violations = append(res.Violations, fv)
			}
		}
	}
	res.ReplayHash = hex.EncodeToString(batch.Sum(nil))
	for k := range shapes {
		res.Shapes = append(res.Shapes, k)
	}
	for k := range scheds {
		res.Scheds = append(res.Scheds, k)
	}
	sort.Slice(res.Shapes, func(i, j int) bool { return res.Shapes[i] < res.Shapes[j] })
	sort.Slice(res.Scheds, func(i, j int) bool { return res.Scheds[i] < res.Scheds[j] })
}

func vkey(v props.Violation) string {
	b, _ := json.Marshal(v.Facts)
	return v.Rule + string(b)
}

func callFailed(out *sim.Outcome) bool {
	for _, c := range out.W.Calls {
		if c.Err != nil || (c.C.Entry == "http_handler" && c.HTTPStatus != 200) {
			return true
		}
	}
	return false
}

// reproduces re-executes the scenario and reports whether the same rule family fires again.
func reproduces(t *testing.T, p props.Property, sc *sim.Scenario, v props.Violation, tries int) bool {
	for k := 0; k < tries; k++ {
		out := execute(t, sc.Clone(), false)
		for _, v2 := range p.Check(out, &props.RunInfo{}) {
			if ruleFamily(v2.Rule) == ruleFamily(v.Rule) {
				return true
			}
		}
	}
	return false
}

func dumpNonRepro(t *testing.T, spec WorkerSpec, sc *sim.Scenario, v props.Violation, failing *sim.Outcome) {
	again := execute(t, sc.Clone(), true)
	d := map[string]any{"rule": v.Rule, "detail": v.Detail, "scenario": sc}
	if failing != nil && failing.W != nil {
		d["failing_log"] = failing.W.Log.Lines
		d["failing_stats"] = failing.W.Stats
	}
	if again != nil && again.W != nil {
		d["passing_log"] = again.W.Log.Lines
	}
	b, _ := json.MarshalIndent(d, "", " ")
	dir := filepath.Dir(filepath.Dir(spec.Out))
	os.WriteFile(filepath.Join(dir, fmt.Sprintf("nonrepro-%s-%d.json", sc.Property, sc.Index)), b, 0o644)
}

// reportViolation minimises the scenario (same rule must keep failing) and writes the replay file.
func reportViolation(t *testing.T, p props.Property, sc *sim.Scenario, v props.Violation, spec WorkerSpec) FoundViolation {
	best := sc.Clone()
	bestV := v
	steps := 0
	if !spec.NoShrink {
		best, bestV, steps = shrink(t, p, sc, v, 500)
	}
	out := execute(t, best, true)
	rf := ReplayFile{Property: p.ID(), Rule: bestV.Rule, Detail: bestV.Detail, Facts: bestV.Facts, LogHash: out.LogHash, Shrunk: !spec.NoShrink, ShrinkSteps: steps, Scenario: best}
	if out.W != nil {
		lines := out.W.Log.Lines
		if len(lines) > 400 {
			lines = lines[:400]
		}
		rf.EventLog = lines
	}
	os.MkdirAll(spec.ReplayDir, 0o755)
	path := fmt.Sprintf("%s/%s-%d-%d-%x.json", spec.ReplayDir, p.ID(), sc.Seed, sc.Index, h64(vkey(bestV))&0xffff)
	b, _ := json.MarshalIndent(rf, "", " ")
	os.WriteFile(path, b, 0o644)
	return FoundViolation{Violation: bestV, Index: sc.Index, Replay: path, LogHash: out.LogHash}
}

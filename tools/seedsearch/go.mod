module seedsearch
go 1.22

package main

import (
	"fmt"
	"math/rand"
	"os"
	"strconv"
	"sync"
	"sync/atomic"
)

// Searches seeds s such that, after rand.Seed(s), one of the first K values of rand.Uint32() is a
// sequence number at the 32-bit wrap (0xffffffff, or 0xfffffffe / 0).
func main() {
	workers, _ := strconv.Atoi(os.Args[1])
	per, _ := strconv.ParseInt(os.Args[2], 10, 64)
	const K = 8
	var found atomic.Int32
	var wg sync.WaitGroup
	var mu sync.Mutex
	for w := 0; w < workers; w++ {
		wg.Add(1)
		go func(w int) {
			defer wg.Done()
			src := rand.NewSource(1)
			r := rand.New(src)
			for s := int64(w) * per; s < int64(w+1)*per && found.Load() < 24; s++ {
				src.Seed(s)
				for k := 0; k < K; k++ {
					v := r.Uint32()
					if v == 0xffffffff || (k == 0 && (v == 0xfffffffe || v == 0)) {
						mu.Lock()
						fmt.Printf("seed=%d pos=%d value=%#x\n", s, k, v)
						mu.Unlock()
						found.Add(1)
					}
				}
			}
		}(w)
	}
	wg.Wait()
}

#!/usr/bin/env python3
"""Regenerates the property-preserving-changes table of DESIGN.md from benign/*/meta.json and BENIGN.md."""
import json, glob, os, re
rows = []
for p in sorted(glob.glob('/verif/benign/*/meta.json')):
    m = json.load(open(p))
    d = os.path.dirname(p)
    summ = ""
    f = os.path.join(d, "summary.txt")
    if os.path.exists(f):
        summ = open(f).read().strip().replace("\n", " ").replace("|", "/")
    stat = ""
    pd = os.path.join(d, "patch.diff")
    if os.path.exists(pd):
        files = set(re.findall(r'^\+\+\+ b/(\S+)', open(pd).read(), flags=re.M))
        stat = "%d files" % len(files)
    bad = [k for k, v in m["checks"].items() if v != 0]
    res = "all %d checks silent (exit 0)" % len(m["checks"]) if not bad else "NOT silent: " + ", ".join("%s exit=%d" % (k, m["checks"][k]) for k in bad)
    rows.append("| %s | %s | %s | suite %s | %s |" % (m["id"], summ, stat, m["suite"], res))
table = "<!-- benign-table-begin -->\n| id | what changes (internal behaviour only) | size | existing suite | result of the 18 quick checks |\n|---|---|---|---|---|\n" + "\n".join(rows) + "\n<!-- benign-table-end -->"
d = open('/verif/DESIGN.md').read()
if '<!-- benign-table-begin -->' in d:
    d = re.sub(r'<!-- benign-table-begin -->.*?<!-- benign-table-end -->', lambda _: table, d, flags=re.S)
else:
    d = d.replace('Self-made single-line edits (the "sensitivity edits" of section 3)', table + '\n\nSelf-made single-line edits (the "sensitivity edits" of section 3)', 1)
open('/verif/DESIGN.md', 'w').write(d)
print(len(rows), "rows")

#!/bin/bash
# tools/mutcheck.sh <worktree> <seeded-id> <property> [more properties to run...]
# Confirms a seeded change produced in a scratch worktree and runs the checks against it:
#  1. extracts the source-only diff (no *_test.go, no MUTANT.md) and the new demo test file(s)
#  2. in the worktree: full existing suite passes with the change; demo fails with it, passes without
#  3. applies the diff to /repo, runs ./check <prop> quick for each given property, reverts /repo
#  4. stores patch.diff, the demo, and meta.json under /verif/seeded/<seeded-id>/
set -u
WT="$1"; ID="$2"; shift 2
PROPS="$*"
OUT=/verif/seeded/$ID
mkdir -p "$OUT"
export GOFLAGS=-mod=mod GOPROXY=off
cd "$WT" || exit 2
git diff HEAD -- . ':(exclude)*_test.go' ':(exclude)MUTANT.md' > "$OUT/patch.diff"
if [ ! -s "$OUT/patch.diff" ]; then echo "no source change in $WT"; exit 2; fi
DEMOS=$(git ls-files --others --exclude-standard | grep '_test\.go$')
echo "patch: $(git diff --stat HEAD -- . ':(exclude)*_test.go' | tail -1)   demos: $DEMOS"
for d in $DEMOS; do mkdir -p "$OUT/demo/$(dirname $d)"; cp "$d" "$OUT/demo/$d"; done
[ -f MUTANT.md ] && cp MUTANT.md "$OUT/MUTANT.md"

# (2) suite with the change (demo files excluded by moving them away)
TMPD=$(mktemp -d)
for d in $DEMOS; do mkdir -p "$TMPD/$(dirname $d)"; mv "$d" "$TMPD/$d"; done
go build ./... >/dev/null 2>"$OUT/build.log" && BUILD=ok || BUILD=FAIL
go test -vet=off -count=1 ./... > "$OUT/suite_with_change.log" 2>&1 && SUITE=pass || SUITE=FAIL
for d in $DEMOS; do mv "$TMPD/$d" "$d"; done
DEMO_PKGS=$(for d in $DEMOS; do echo "./$(dirname $d)/"; done | sort -u)
DEMO_WITH=n/a; DEMO_WITHOUT=n/a
TAGS=""
for d in $DEMOS; do grep -q '^//go:build verif' "$d" && TAGS="-tags verif"; done
# demonstrations of data races only fail under the race detector
if [ -f MUTANT.md ] && grep -q -- 'go test -race' MUTANT.md; then TAGS="$TAGS -race"; export CGO_ENABLED=1; fi
if [ -n "$DEMOS" ]; then
  timeout 300 go test $TAGS -vet=off -count=1 $DEMO_PKGS > "$OUT/demo_with_change.log" 2>&1 && DEMO_WITH=pass || DEMO_WITH=FAIL
  # (no git stash: refs/stash is shared by all worktrees of a repository)
  git apply -R "$OUT/patch.diff"
  timeout 300 go test $TAGS -vet=off -count=1 $DEMO_PKGS > "$OUT/demo_without_change.log" 2>&1 && DEMO_WITHOUT=pass || DEMO_WITHOUT=FAIL
  git apply "$OUT/patch.diff"
fi
rmdir -p "$TMPD" 2>/dev/null; rm -rf "$TMPD"
echo "build=$BUILD existing-suite-with-change=$SUITE demo-with-change=$DEMO_WITH demo-without-change=$DEMO_WITHOUT"

# (3) checks against /repo with the change applied
cd /verif
if ! git -C /repo diff --quiet; then echo "/repo has uncommitted changes; refusing"; exit 2; fi
git -C /repo apply "$OUT/patch.diff" || { echo "patch does not apply to /repo"; exit 2; }
# evidence files describe runs on the real tree: keep them out of harm's way
rm -rf /verif/.work/evidence.keep && cp -r /verif/evidence /verif/.work/evidence.keep
RESULTS=""
for p in $PROPS; do
  ./check $p quick > "$OUT/check_$p.log" 2>&1; rc=$?
  rule=$(grep -m1 '^violation rule=' "$OUT/check_$p.log" | sed 's/^violation rule=\([^ ]*\).*/\1/')
  echo "  $p: exit=$rc ${rule}"
  RESULTS="$RESULTS\"$p\": {\"exit\": $rc, \"first_rule\": \"$rule\"}, "
done
git -C /repo checkout -- . && git -C /repo clean -fdq
rm -rf /verif/evidence && mv /verif/.work/evidence.keep /verif/evidence
git -C /repo status --short | grep -v '^??' && echo "WARNING: /repo not clean"
find /verif/replays -name '*.json' -newer "$OUT/patch.diff" -exec cp {} "$OUT/" \; 2>/dev/null
python3 - "$OUT" "$ID" "$BUILD" "$SUITE" "$DEMO_WITH" "$DEMO_WITHOUT" "{${RESULTS%, }}" "$PROPS" <<'EOF'
import json, sys, os
out, mid, build, suite, dw, dwo, results, props = sys.argv[1:9]
meta_path = os.path.join(out, "meta.json")
meta = json.load(open(meta_path)) if os.path.exists(meta_path) else {}
meta.update({"id": mid, "build": build, "existing_suite_with_change": suite, "demo_with_change": dw, "demo_without_change": dwo,
             "checks_run": json.loads(results), "commands": ["tools/mutcheck.sh <worktree> %s %s" % (mid, props)]})
json.dump(meta, open(meta_path, "w"), indent=1)
EOF

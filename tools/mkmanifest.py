#!/usr/bin/env python3
"""Regenerates /verif/MANIFEST.json from the table below (kept next to the checks it describes)."""
import json, subprocess

EXPL = "exploration"
FE = "fault_enumeration"
TECH = "deterministic simulation with fault injection: real engines/drivers/runner in one process under a testing/synctest bubble, seeded baton scheduler deciding every interleaving, simulated AF_PACKET wire + scripted services, "
checks = {
 "C01": (EXPL, "seeded search over adversarial inbound traffic (single-field look-alikes, stale/early identifiers, +256 aliases, foreign flows, own probes) in every arrival order the scheduler tape produces; oracle = spec-level reference matcher + ledger; a clean batch is evidence, not proof", TECH + "reference-matcher/ledger oracle over returned hops"),
 "C02": (EXPL, "seeded search over the reply-encoding catalogue x timing x loss/dup/reorder; every genuine in-window reply must be read and reflected; sampling, not enumeration of encodings", TECH + "scheduled-arrival completeness + reference fold"),
 "C03": (EXPL, "shape invariant evaluated on every successful return of both engines (scripted driver: any subset of TTLs, several destination TTLs, duplicates, late) and of every protocol entry point; seeded search", TECH + "invariant check on every returned path"),
 "C04": (EXPL, "seeded search with destination-form replies from non-target hosts and errors from the target; IsDest compared with the proof-of-arrival rule on the reference fold's selected packet", TECH + "ledger oracle for destination marking"),
 "C05": (EXPL, "seeded search over per-hop delay assignments on the virtual clock (non-monotone, duplicates, overtaking, production-scale timeouts, sender stalls), RTT compared with arrival minus hand-off of the same probe within one observed poll interval; e2e samples matched as multisets", TECH + "virtual-clock RTT oracle"),
 "C06": (EXPL, "every byte string handed to Sink.WriteTo is decoded by an independent codec and checked per probe and per run; thorough tier walks all 255 TTLs of every variant; seeded search over bases and network behaviours", TECH + "independent-codec monitor at the send seam"),
 "C07": (EXPL, "seeded search over interleavings of sends and scripted response hand-outs (choice tape), result compared with a reference fold over the exact hand-out sequence; number of distinct interleavings reached is reported, no exhaustiveness claim", TECH + "schedule exploration against an executable reference fold"),
 "C08": (EXPL, "seeded search over silence, floods, stalled HTTP/DNS responders and cancellation instants; elapsed virtual time of every call compared with the bound computed from its parameters; hangs surface as synctest deadlock (no-return)", TECH + "virtual-time bound oracle, stall and cancellation injection"),
 "C09": (EXPL, "seeded, structure-aware damage (every truncation length, structural bit flips, oversize, random strings) injected as a network fault; no crash, no abort, result = reference fold; not coverage-guided fuzzing", TECH + "garbage injection with reference fold"),
 "C10": (FE, "systematic grid: for every seeded base run each of 64 fault slots (construction, filter 1/2, k-th write, k-th read x {fatal, spurious deadline, zero-length}, k-th SetReadDeadline, multi-fault) is executed; (nil, err wrapping cause), exactly-once close, no use after close, no goroutine left", TECH + "k-th-call fault enumeration at the Source/Sink seam"),
 "C11": (EXPL, "seeded search over sets of 2-8 concurrent runs (and multi-run requests) on one wire where every handle sees every packet, allocator bases near wrap; each run compared with its solo reference fold, identifier sets of live runs pairwise disjoint", TECH + "shared-wire cross-talk oracle"),
 "C12": (EXPL, "the repository's real cBPF programs run in the x/net/bpf VM on every delivered frame plus synthesised frames over the inspected equivalence classes; verdict compared with a reference predicate, genuine replies must never be rejected; sampling over the class product", TECH + "real filter programs executed by the simulated capture handle"),
 "C14": (EXPL, "free-running mode (no scheduler, so that the harness adds no happens-before edges) under the Go race detector at GOMAXPROCS 1/4/16: real engines/drivers/aggregation over an unsynchronised pre-seeded wire with early/stale replies and sender-stopping destination replies; any report with a repository frame is a violation keyed by its two access sites; dynamic detection on the explored runs only", "deterministic-simulation harness in free-running mode: synctest fake clock, pre-seeded unsynchronised wire (//go:norace hand-off), Go race detector as the oracle"),
 "C15": (EXPL, "seeded search over query counts, failing subsets (per-endpoint sentinel faults) and completion orders; all-or-error with exact counts, every cause exposed through errors.Join, public-IP failure never fatal", TECH + "per-endpoint fault injection in multi-run requests"),
 "C17": (EXPL, "modest claim: documents produced by the real pipeline over simulated topologies with private/public block-edge and IPv4-mapped responders, with and without reverse DNS, through the library and the HTTP handler; JSON compared hop by hop with the ledger", TECH + "ledger-vs-JSON redaction oracle"),
 "C18": (EXPL, "seeded search over resolver behaviours and completion orders of the concurrent lookups, cache call sequences around the 1 h / 2 h expiries on the virtual clock with concurrent callers, per-provider HTTP scripts with deterministic back-off; per-address attribution, cache history rule, provider order/stop/retry rules", TECH + "scripted DNS/HTTP services on the virtual clock, history-rule oracle"),
 "C19": (EXPL, "seeded boundary-value search over TTL bounds, ports, protocol/method strings and target literal forms through RunTraceroute and the HTTP handler; reject, or the wire shows exactly the requested range/target/probe kind; process death = violation", TECH + "wire ledger vs. requested parameters"),
 "C20": (FE, "finite matrix method x target capability x injected non-capability failure x e2e count enumerated by run index, topology/timing seeded per repetition; probe kinds on the wire, accepted connections on the real loopback listener and the error chain decide", TECH + "capability/fault matrix with a real TCP handshake to a loopback listener"),
}
na = [
 {"property_id": "C13", "reason": "needs the real Linux kernel IP/ICMP/TCP stack, real AF_PACKET/raw sockets and kernel routers; replacing any of them by a simulated part removes what is being checked, and their scheduling cannot be put under a seeded controller (that is runtime observation, another technique)"},
 {"property_id": "C16", "reason": "pure function of an in-memory result document (statistics, id freshness, JSON field names): no schedule, clock, fault or interleaving influences it, so simulation has nothing to decide"},
]
PENDING = {}

def main():
    import os, sys
    sys.path.insert(0, os.path.dirname(__file__))
    hooks = subprocess.check_output(["git", "-C", "/repo", "log", "--format=%h %s"]).decode().splitlines()
    hook_commits = [l.split()[0] for l in hooks if "verif hook" in l][::-1]
    claimed = sorted(checks)
    out_checks = []
    for c in claimed:
        level, text, tech = checks[c]
        out_checks.append({
            "property_id": c,
            "quick_cmd": "./check %s quick" % c,
            "thorough_cmd": "./check %s thorough" % c,
            "evidence_file": "/verif/evidence/%s.json" % c,
            "replay_cmd_template": "./check %s --replay {path}" % c,
            "engine": "simnet-race" if c == "C14" else "simnet",
            "level_claimed": {"category": level, "text": text, "design_ref": "DESIGN.md section 3, %s" % c},
            "level_note": "trusted base: the harness codec and reference matcher (written from the property text), testing/synctest's fake clock and quiescence detection, the x/net/bpf VM; kernel-chosen ephemeral ports are treated symbolically; the three real kernel calls (UDP connect, TCP listen, TCP connect on loopback in a private netns) are not fault-injected",
            "technique": tech,
        })
    nas = list(na) + [{"property_id": k, "reason": v} for k, v in PENDING.items() if k not in checks]
    m = {
        "version": 1,
        "setup_cmd": "./check build",
        "hooks": {"guard": "verif", "enable": "Go build tag: `go1.26.8 test -c -tags verif` of the harness module (replace github.com/DataDog/datadog-traceroute => /repo)",
                  "baseline_off_cmd": "cd /repo && GOFLAGS=-mod=mod GOPROXY=off go test -vet=off -count=1 ./...",
                  "source_commits": hook_commits, "add_only": True},
        "engines": [
            {"name": "simnet", "path": "/verif/harness", "serves_properties": [c for c in claimed if c != "C14"],
             "kind_free_text": "deterministic simulator (controlled mode): testing/synctest bubble + seeded baton scheduler + simulated AF_PACKET wire with the real cBPF programs + scripted DNS/HTTP + real loopback TCP handshake; supervisor with up to 16 single-threaded worker processes, each in its own network namespace"},
            {"name": "simnet-race", "path": "/verif/harness", "serves_properties": ["C14"],
             "kind_free_text": "free-running mode: same bubble (fake clock only), no scheduler, pre-seeded unsynchronised wire, binary built with -race"},
        ],
        "checks": out_checks,
        "not_applicable": nas,
        "notes": "exit 0 held (KNOWN-FINDING lines printed for entries of /verif/KNOWN_FINDINGS.txt) / 1 VIOLATION property=<id> replay=<path> / 2 build, watchdog, determinism-probe or environment trouble. VERIF_SEED selects the batch (default 1); VERIF_RUNS overrides the quick run count; VERIF_BUDGET_S the thorough time box (default 540 s). ./check selftest-determinism quick runs the same (property, seed) batches in many processes at GOMAXPROCS 1/4/16 and compares event-log hashes.",
    }
    json.dump(m, open("/verif/MANIFEST.json", "w"), indent=1)
    print("claimed:", claimed, "not applicable:", [x["property_id"] for x in nas])

if __name__ == "__main__":
    main()

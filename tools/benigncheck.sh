#!/bin/bash
# tools/benigncheck.sh <worktree> <id> [checks...]   runs every quick check (or the named ones) against a property-preserving change
# (false-alarm test): build + existing suite in the worktree, then apply to /repo, run all checks, revert.
WT="$1"; ID="$2"; shift 2; CHECKS="$*"; [ -z "$CHECKS" ] && CHECKS="C01 C02 C03 C04 C05 C06 C07 C08 C09 C10 C11 C12 C14 C15 C17 C18 C19 C20"
ROOT=$(cd "$(dirname "$0")/.." && pwd); REPO=${VERIF_REPO:-/repo}
OUT=$ROOT/benign/$ID; mkdir -p "$OUT"
export GOFLAGS=-mod=mod GOPROXY=off
cd "$WT" || exit 2
git add -N . 2>/dev/null   # new source files belong to the change
git diff HEAD -- . ':(exclude)*_test.go' ':(exclude)*.md' > "$OUT/patch.diff"
[ -f BENIGN.md ] && cp BENIGN.md "$OUT/BENIGN.md"
go build ./... >/dev/null 2>"$OUT/build.log" && BUILD=ok || BUILD=FAIL
go test -vet=off -count=1 ./... > "$OUT/suite_with_change.log" 2>&1 && SUITE=pass || SUITE=FAIL
echo "build=$BUILD suite=$SUITE"
cd "$ROOT"
if ! git -C "$REPO" diff --quiet; then echo "$REPO dirty"; exit 2; fi
git -C "$REPO" apply "$OUT/patch.diff" || { echo "patch does not apply"; exit 2; }
rm -rf .work/evidence.benign && cp -r evidence .work/evidence.benign
RES=""
for p in $CHECKS; do
  ./check $p quick > "$OUT/check_$p.log" 2>&1; rc=$?
  rule=$(grep '^violation rule=' "$OUT/check_$p.log" | sed 's/^violation rule=\([^ ]*\).*/\1/' | sort | uniq -c | sort -rn | head -3 | tr '\n' ' ')
  echo "  $p exit=$rc $rule"
  RES="$RES\"$p\": $rc, "
done
git -C "$REPO" checkout -- . && git -C "$REPO" clean -fdq
rm -rf evidence && mv .work/evidence.benign evidence
echo "{\"id\": \"$ID\", \"build\": \"$BUILD\", \"suite\": \"$SUITE\", \"checks\": {${RES%, }}}" > "$OUT/meta.json"

#!/usr/bin/env python3
"""Regenerates the seeded-changes table of DESIGN.md (between the markers) from seeded/*/meta.json."""
import json, glob, os, re
rows = []
for p in sorted(glob.glob('/verif/seeded/*/meta.json')):
    m = json.load(open(p))
    checks = ", ".join("%s:%s" % (k, "caught" if v["exit"] == 1 else ("trouble" if v["exit"] == 2 else "silent")) for k, v in m.get("checks_run", {}).items())
    rows.append("| %s | %s | %s | %s | %s |" % (m["id"], m.get("property", "?"), m.get("needs_to_manifest", "").replace("|", "/"), m.get("caught_by", "").replace("|", "/"), checks))
table = "<!-- seeded-table-begin -->\n| id | property | what it needs to manifest | caught by | checks run (quick tier) |\n|---|---|---|---|---|\n" + "\n".join(rows) + "\n<!-- seeded-table-end -->"
d = open('/verif/DESIGN.md').read()
if 'SEEDED_TABLE' in d:
    d = d.replace('SEEDED_TABLE', table)
else:
    d = re.sub(r'<!-- seeded-table-begin -->.*?<!-- seeded-table-end -->', lambda _: table, d, flags=re.S)
open('/verif/DESIGN.md', 'w').write(d)
print(len(rows), "rows")

#!/bin/bash
# tools/benign_regress.sh "<benign ids>" "<checks>"   re-runs the named quick checks against recorded
# property-preserving changes (apply patch to /repo, ./check <prop> quick, revert) and reports every
# check that is no longer silent. Used after a check has been strengthened. Evidence files are preserved.
ROOT=$(cd "$(dirname "$0")/.." && pwd); cd "$ROOT"
REPO=${VERIF_REPO:-/repo}   # a scratch worktree of the repository can be named instead (./check honours VERIF_REPO too)
IDS="$1"; [ -z "$IDS" ] && IDS=$(ls benign)
CHECKS="$2"; [ -z "$CHECKS" ] && CHECKS="C01 C02 C03 C04 C05 C06 C07 C08 C09 C10 C11 C12 C14 C15 C17 C18 C19 C20"
if ! git -C "$REPO" diff --quiet; then echo "$REPO has uncommitted changes; refusing"; exit 2; fi
rm -rf .work/evidence.bregress && cp -r evidence .work/evidence.bregress
LOUD=""
for id in $IDS; do
  git -C "$REPO" apply $ROOT/benign/$id/patch.diff || { echo "$id: patch does not apply"; LOUD="$LOUD $id(apply)"; continue; }
  for p in $CHECKS; do
    ./check $p quick > .work/bregress_${id}_$p.log 2>&1; rc=$?
    rule=$(grep '^violation rule=' .work/bregress_${id}_$p.log | sed 's/^violation rule=\([^ ]*\).*/\1/' | sort | uniq -c | sort -rn | head -3 | tr '\n' ' ')
    echo "$id $p exit=$rc $rule"
    [ $rc -ne 0 ] && LOUD="$LOUD $id/$p(exit=$rc)"
  done
  git -C "$REPO" checkout -- . && git -C "$REPO" clean -fdq
done
rm -rf evidence && mv .work/evidence.bregress evidence
echo "not silent:${LOUD:- none}"

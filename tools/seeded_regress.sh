#!/bin/bash
# tools/seeded_regress.sh [id...]   re-runs, for every recorded seeded change, the checks that caught it
# (apply patch to /repo, ./check <prop> quick, revert) and reports changes that have become silent.
# Evidence files are preserved (they describe runs on the real tree).
ROOT=$(cd "$(dirname "$0")/.." && pwd); cd "$ROOT"
REPO=${VERIF_REPO:-/repo}   # a scratch worktree of the repository can be named instead (./check honours VERIF_REPO too)
IDS="$*"; [ -z "$IDS" ] && IDS=$(ls seeded | grep -v "^_")
if ! git -C "$REPO" diff --quiet; then echo "$REPO has uncommitted changes; refusing"; exit 2; fi
rm -rf .work/evidence.regress && cp -r evidence .work/evidence.regress
SILENT=""
for id in $IDS; do
  props=$(python3 -c "
import json,sys
m=json.load(open('seeded/$id/meta.json'))
print('SKIP' if m.get('expected_silent') else 'MISS' if m.get('known_miss') else ' '.join(p for p,r in m.get('checks_run',{}).items() if r.get('exit')==1))")
  [ "$props" = "SKIP" ] && { echo "$id: expected to stay silent (see meta.json)"; continue; }
  [ "$props" = "MISS" ] && { echo "$id: recorded as not caught (see meta.json)"; continue; }
  [ -z "$props" ] && { echo "$id: no catching check recorded"; SILENT="$SILENT $id"; continue; }
  git -C "$REPO" apply $ROOT/seeded/$id/patch.diff || { echo "$id: patch does not apply"; SILENT="$SILENT $id(apply)"; continue; }
  for p in $props; do
    ./check $p quick > .work/regress_${id}_$p.log 2>&1; rc=$?
    rule=$(grep -m1 '^violation rule=' .work/regress_${id}_$p.log | sed 's/^violation rule=\([^ ]*\).*/\1/')
    vr=$(grep -o 'violating_runs=[0-9]*' .work/regress_${id}_$p.log | head -1 | cut -d= -f2)
    echo "$id $p exit=$rc $rule violating_runs=${vr:-?}"
    [ $rc -ne 1 ] && SILENT="$SILENT $id/$p(exit=$rc)"
  done
  git -C "$REPO" checkout -- . && git -C "$REPO" clean -fdq
done
rm -rf evidence && mv .work/evidence.regress evidence
echo "silent:${SILENT:- none}"
